#!/bin/bash
# seedeval.sh <Cxx> <k> [tier] [extra go test flags]
# Confirms an independently written property-breaking change (applies, builds, existing tests pass, its demonstration
# fails with the change and passes without), runs ./check <Cxx> <tier> against the patched scratch tree and files the
# change under /verif/seeded/<Cxx>-<k>/.
set -u
id=$1; k=$2; tier=${3:-quick}; extra=${4:-}
if [ -z "$extra" ] && [ -f /tmp/seed/$id-out/$k/meta.json ]; then extra=$(python3 -c "import json;print(json.load(open('/tmp/seed/$id-out/$k/meta.json')).get('demo_flags','') or '')" 2>/dev/null); fi
src=/tmp/seed/$id-out/$k
[ -d "$src" ] || src=/verif/seeded/$id-$k
export GOFLAGS=-mod=mod GOPROXY=off GOSUMDB=off GOTOOLCHAIN=local
wt=/tmp/seedeval/$id-$k
rm -rf $wt; mkdir -p /tmp/seedeval
git -C /repo worktree add -q --detach $wt HEAD || exit 2
cleanup() { git -C /repo worktree remove --force $wt 2>/dev/null; rm -rf $wt; }
trap cleanup EXIT
cd $wt
if ! git apply --check $src/patch.diff 2>/dev/null && ! git apply -3 --check $src/patch.diff 2>/dev/null; then echo "$id-$k: PATCH DOES NOT APPLY"; exit 3; fi
placement=$(python3 -c "import json;print(json.load(open('$src/meta.json')).get('demo_placement','.'))" 2>/dev/null | awk '{print $1}')
[ -d "$wt/$placement" ] || placement=.
demo_status() { # returns pass/fail/none
  if [ -f $src/demo_test.go ]; then
    cp $src/demo_test.go $wt/$placement/zz_seed_demo_test.go
    if go test -vet=off -count=1 $extra ./$placement >/tmp/seedeval/$id-$k.demo.$1 2>&1; then echo pass; else echo fail; fi
    rm -f $wt/$placement/zz_seed_demo_test.go
  elif [ -f $src/demo.sh ]; then
    if bash $src/demo.sh $wt >/tmp/seedeval/$id-$k.demo.$1 2>&1; then echo pass; else echo fail; fi
  else echo none; fi
}
clean=$(demo_status clean)
git apply $src/patch.diff 2>/dev/null || git apply -3 $src/patch.diff >/dev/null 2>&1 || { echo "$id-$k: PATCH DOES NOT APPLY"; exit 3; }
if ! go build ./... 2>/tmp/seedeval/$id-$k.build; then echo "$id-$k: DOES NOT BUILD"; exit 3; fi
if ! go test -vet=off -count=1 ./... >/tmp/seedeval/$id-$k.tests 2>&1; then echo "$id-$k: EXISTING TESTS FAIL WITH PATCH"; tail -5 /tmp/seedeval/$id-$k.tests; exit 3; fi
patched=$(demo_status patched)
echo "$id-$k: applies, builds, existing tests pass; demonstration: clean=$clean patched=$patched"
chk=${CHECK_ID:-$id}   # CHECK_ID: the change breaks (also) another property whose check is the one that reports it
out=$(cd /verif && VERIF_EVIDENCE_DIR=/tmp/seedeval-evidence VERIF_REPO=$wt ./check $chk $tier 2>&1); rc=$?
first=$(echo "$out" | grep -E '^violation' | head -1 | cut -c1-400)
echo "$id-$k: check $chk $tier rc=$rc :: $first"
echo "$out" | tail -1 | cut -c1-200
echo "$out" > /tmp/seedeval/$id-$k.check
if [ "$clean" = pass ] && [ "$patched" = fail ] && [ -d /tmp/seed/$id-out/$k ]; then
  d=/verif/seeded/$id-$k; mkdir -p $d
  cp $src/patch.diff $d/; for f in demo_test.go demo.sh; do [ -f $src/$f ] && cp $src/$f $d/; done
  python3 - "$src/meta.json" "$d/meta.json" "$id" "$tier" "$rc" "$first" "$extra" "$chk" <<'PY'
import json,sys
src,dst,pid,tier,rc,first,extra,chk=sys.argv[1:9]
try: m=json.load(open(src))
except Exception: m={}
m['property']=pid
m['confirmed_by_me']={'patch_applies_to':'/repo HEAD at evaluation time','builds':True,'existing_tests_pass':True,'demonstration_without_change':'pass','demonstration_with_change':'fail','demo_flags':extra,
  'ran':['tools/seedeval.sh %s %s'%(pid,tier)]}
m['check_result']={'command':'./check %s %s'%(chk,tier),'exit':int(rc),'caught':int(rc)==1,'first_violation':first}
if chk!=pid: m['check_result']['caught_by']=chk
json.dump(m,open(dst,'w'),indent=1)
PY
fi
exit $rc
