#!/usr/bin/env python3
import json,glob,os
V=os.path.dirname(os.path.dirname(os.path.abspath(__file__)))
rows=[]
for d in sorted(glob.glob(V+'/seeded/C*-*')):
    m=json.load(open(d+'/meta.json'))
    cr=m.get('check_result',{})
    by=cr.get('caught_by') or (m['property'] if cr.get('caught') else 'NOT CAUGHT')
    rows.append((os.path.basename(d), m.get('summary','')[:230].replace('\n',' ').replace('|','/'), m.get('needs_to_manifest','')[:200].replace('\n',' ').replace('|','/'), by, cr.get('first_violation','')[:160].replace('|','/').replace('\n',' ')))
with open(V+'/seeded/INDEX.md','w') as f:
    f.write('# Seeded property-breaking changes\n\nEach directory holds a change written by an independent sub-agent that saw only the text of one property and a scratch worktree of /repo (nothing from /verif): `patch.diff`, its demonstration (`demo_test.go`), and `meta.json` (what it changes, what it needs to manifest, what I confirmed: applies to HEAD, builds, existing tests pass, demonstration passes without and fails with the change, and the result of the check against the patched tree). Re-run one with `tools/seedeval.sh <Cxx> <k>`; `./selftest` re-runs all of them.\n\n')
    f.write('| seed | change | needs | caught by | first violation reported |\n|---|---|---|---|---|\n')
    for r in rows: f.write('| %s | %s | %s | %s | %s |\n'%r)
    n=len(rows); nc=sum(1 for r in rows if r[3]!='NOT CAUGHT')
    f.write(f'\n{nc} of {n} changes are caught by the checks as committed. History of the rounds (how many were caught by the checks as they were when the round arrived, and what was strengthened) is in DESIGN.md §8.\n')
print(len(rows))
