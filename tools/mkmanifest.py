#!/usr/bin/env python3
"""Regenerates /verif/MANIFEST.json from the table below (claimed checks) and properties.jsonl."""
import json, os
V = os.path.dirname(os.path.dirname(os.path.abspath(__file__)))
props = [json.loads(l) for l in open(os.path.join(V, 'properties.jsonl'))]

E1 = 'E1 enum'
E2 = 'E2 bfs'
E3 = 'E3 vsched'
E4 = 'E4 crash'
E5 = 'E5 proc'
COMMON = ' Built from the working tree through a build overlay (no source hooks).'
claimed = {
 'C01': dict(level='exploration', engine=E1, ref='§4 C01',
   technique='bounded-exhaustive enumeration of datasets x expression trees x writers x open modes against a bit-vector reference model',
   text='Every member of the stated finite spaces (all row sequences up to 3/4 rows over 9 row shapes - and over 9 shapes of prefix-related column names whose name+value concatenations coincide - x all expression trees to depth 1/2; a boundary family with interval-shaped bitmaps around 1000/4096/65536 rows and >1000 distinct values; a truth-table dataset x all trees to depth 2/3) is executed on the real index for all three writer paths and both open modes and compared with a naive model; every value of the 1500- and N-valued columns is queried in both open modes; expression objects are also executed, edited in place and executed again. A wrong count is minimised to the earlier query it depends on. Exhaustive within the stated bounds; larger datasets and deeper trees are not covered.',
   note='Trusts the bit-vector reference model and bbolt/roaring as libraries; 64-bit hash collisions assumed away; the NUL-byte column input is reported as a known finding.'),
 'C02': dict(level='exploration', engine=E1, ref='§4 C02',
   technique='bounded-exhaustive enumeration of datasets x expressions x all group-by lists (length 0..6) against a brute-force GROUP BY model',
   text='All group-by lists of length 0..4 over {a,b,c,unknown} and 5..6 over {a,b} on every dataset of up to 2 (quick) / 3 (thorough) rows over 36 row shapes plus dedicated families (17 rows with values whose byte order differs from numeric/locale order or that continue a common prefix with NUL; 1100 rows with a 1100-valued group-by column), 4-6 expressions, all writer/open configurations: the complete group list (tuples, counts, order, column names) must equal the model. The dedicated family also has columns whose name is two other names joined by a comma / a blank ("a,b", "a b"), grouped by next to ["a","b"].',
   note='Trusts the brute-force model; datasets beyond the small scope are not covered.'),
 'C03': dict(level='model_checking', engine=E2, ref='§4 C03',
   technique='explicit-state BFS over query histories of a real cached index (state = cached (key, content checksum) list + preloaded checksum) plus exhaustive ordered query pairs on a fresh cache',
   text='For each of 10 configurations {on-demand, preloaded} x {no cache, LRU 0, ~1 entry, ~3 entries, ample} all reachable cache states for a 17-query alphabet are visited (fixpoint) and every transition compared with the uncached answer on a dataset where the count identifies the boolean function; all ordered pairs of a tree space (7 056 quick / 3.6 M thorough) are run on a fresh ample cache; a 2500-value index is compared value by value on demand vs preloaded vs preloaded+cached; leaves with coinciding name+value concatenations are run pairwise on a cached index; expression objects are executed, edited in place and executed again. An additional capacity that holds exactly one leaf bitmap and nothing bigger (12 configurations).',
   note='State merging assumes the future depends only on cached (key, content) in recency order and preloaded contents; up to 64-bit key collisions.'),
 'C04': dict(level='model_checking', engine=E3, ref='§4 C04',
   technique='stateless schedule enumeration (preemption-bounded DFS) of real goroutines under a controlled cooperative scheduler with the Go race detector live in every schedule; linearizability check of LRU histories',
   text='All schedules with at most k preemptions (k=2..3 quick, 3..5 thorough) of 2-3 real goroutines calling Execute/GetSchema on one open index (3 cache kinds x 2 open modes; also on a cold index opened per execution) or Get/Put on one LRUCache, with scheduling points at every sync/atomic operation of updog and at the locks inside bbolt; per schedule: no race report, panic or deadlock, every result equals the sequential one, LRU structure consistent, direct cache histories linearizable. Supplementary (free-running, stated as not exhaustive): the real server built with -race under batches and concurrent clients.',
   note='Scheduling points at sync/atomic operations, channel operations, select statements and file-system calls of updog packages (rewritten at build time) and at the internal locks of bbolt; races in between are caught by the race detector, which sees only the program\'s own happens-before edges. gRPC-level concurrency is not enumerated.'),
 'C05': dict(level='exploration', engine=E1 + ' + ' + E2, ref='§4 C05',
   technique='bounded-exhaustive enumeration of AddRow sequences x 3 writer paths x 2 open modes against the model (ids, schema, universe, exact membership via a unique column) plus BFS over open/close/probe histories',
   text='Every dataset of the small-scope product (with and without a unique id column) and of the batch-boundary families (0..2500/4097 rows, >1000 distinct values in one and two columns, exact multiples of the 1000-value batch, values on more than 4096 rows, several outputs of one writer) is written by all writer paths and probed completely; reopen histories over {open, open-preload, close, probe} are explored breadth-first on file copies. Every row is handed to AddRow in one map that is refilled for the next row and scribbled over before Flush (the shared builder behind C01, C02, C05, C12, C13).',
   note='Membership is observed through a unique id column; trusts the model.'),
 'C07': dict(level='model_checking', engine=E2, ref='§4 C07',
   technique='explicit-state BFS to fixpoint over Put/Get histories of the real LRUCache (state = dump of real internal state + reference-model state), relations R1-R6 checked on every transition',
   text='Every reachable state of the real LRUCache for a 15-operation alphabet (3 keys x 4 bitmap size classes) and 20 capacities is visited (fixpoint, not a depth cut) and the lookup / byte-bound / LRU-order / counter relations are checked on every transition.',
   note='Trusts roaring GetSizeInBytes; state merging on (recency list with accounted sizes, byte counter, model state); fits/comfortably read with 128 bytes slack per entry.'),
 'C08': dict(level='model_checking', engine=E2, ref='§4 C08',
   technique='explicit-state BFS to fixpoint over execution histories of 16 Query values on 2 indexes (state = generic dump of the private fields of the Query values) plus unmerged enumeration of all sequences to depth 3/5',
   text='All histories of re-using 16 Query values (ungrouped, grouped, repeated and unknown columns, a column known to one index only in every operand position, values absent from one index) on two indexes, one of them cached: every execution equals a freshly constructed equal query and the visible fields stay unchanged; the caller also replaces or edits GroupBy and the expression between executions, and every Result obtained earlier must still be what it was after each later execution. The group-by lists of all Query values are slices of one shared array with spare capacity reaching into the next list (drill-down style dims[:k]); the array is compared after every step.',
   note='State merging on the non-Expr fields of the Query values, cross-checked by the unmerged enumeration.'),
 'C17': dict(level='model_checking', engine=E2 + ' + ' + E3, ref='§4 C17',
   technique='explicit-state BFS over open/query/close histories through real database/sql (state = pool stats + driver cache dump) and preemption-bounded schedule enumeration of concurrent first use at the driver.Driver seam with file-lock waits as scheduling points',
   text='Sequential: all histories to depth 6/8 over 2 files (one addressed through a non-canonical path) x 2 option strings, <=3 live handles, pool sizes {unlimited,1}, states merged on a generic dump of the complete private state of the driver, plus every history to depth 5 over a reduced alphabet without any merging; any lock (file lock, updog mutex, bbolt lock) that cannot be taken in a single-threaded history is a hang. Concurrent: 2-3 threads Open/Query/Close on one file (same query, different bound arguments, with a shared LRU cache) under the controlled scheduler with the race detector; deadlock = a thread waiting for a lock nobody will release. Since round 8: file 0 is also opened under a second spelling of its path (<dir>/./<name>) while it is live (merged BFS: without options; unmerged search: without and with options), and two concurrent scenarios in which the file is a bbolt file without index content (every concurrent Open must fail cleanly; a valid index put there afterwards must open and answer).',
   note='GC disabled during replays (a finalizer could release a leaked lock); one residual class (same file under different option strings) is a recorded known finding.'),
 'C18': dict(level='model_checking', engine=E3, ref='§4 C18',
   technique='stateless enumeration of ALL interleavings (unbounded preemptions) of k goroutines x r AddRow calls on the real writers under the controlled scheduler with the Go race detector live; flushed index compared with the sequential model',
   text='For both writers and (k,r) up to (3,2),(4,1),(2,3), also with 998/999 pre-inserted rows so that the big writer\'s 1000-row commit falls into the concurrent phase: every interleaving is executed; ids must be exactly 0..n-1 and the flushed index must equal the model of a sequential insertion in id order.',
   note='As C04; 2-4 goroutines instead of 2..32.'),
'C06': dict(level='fault_enumeration', engine=E4 + ' + ' + E5, ref='§4 C06',
   technique='exhaustive crash-point enumeration on the real bbolt write path: the file image before every write (plus page-granular torn writes) of every creation history is opened with OpenIndex; same through a self-SIGKILLing `updog create`',
   text='For every history (in-memory writer via Flush and via WriteToBoltDatabase, big writer; sizes on both sides of the 1000-value / 1000-row batches, and scattered rows whose bitmaps exceed a page) every prefix of the sequence of file writes and torn variants of multi-page writes is materialised and must be rejected or answer all probes like the complete index; a real `updog create [-b]` is SIGKILLed before its k-th write for every k; the unmodified binary runs under ptrace and is killed (or interrupted by SIGINT / SIGTERM) before every file-changing system call, with TMPDIR next to the output and on another file system, and after every kill the command is run again on a corrected input with the leftovers in place.',
   note='Process death only (no loss of un-synced page cache); all file content changes go through the hooked bbolt write function; bbolt transaction atomicity is exercised, not assumed; one torn-init-write class is a recorded known finding of the bbolt dependency.'),
 'C09': dict(level='exploration', engine=E1, ref='§4 C09',
   technique='bounded-exhaustive enumeration of token strings (<=5/7 tokens), byte strings (<=4/5 symbols), generated sentences and finite families against an independent recogniser of the documented grammar, goroutine accounting under GOMAXPROCS=1',
   text='Every string of the stated spaces is parsed by the real parser on its own goroutine: termination, accept/reject and the prescribed tree are compared with an independent reference recogniser, and the goroutine count must return to the baseline after every call. Plus runs of 2..4097 bytes/runes of one class (continuation bytes, lead bytes, multi-byte runes, blanks, letters, $, quotes) at 8 positions of a sentence.',
   note='Trusts the reference recogniser (written from the EBNF with end-of-input required); inputs beyond the bounds are not covered; leaks/hangs decided by scheduler state, not wall-clock.'),
 'C10': dict(level='exploration', engine=E1, ref='§4 C10',
   technique='bounded-exhaustive enumeration of query trees (depth<=2 arity<=3, depth<=3 arity<=2), value strings and group-by lists through format -> parse -> normalise -> compare',
   text='Every tree of the stated spaces (single-operand and nested same-operator nodes included), every value string up to length 4/5 over a 6-symbol alphabet and every group-by list of length 0..3 is formatted, parsed back, compared after normalisation, and the re-formatted text checked to be a fixpoint. Ahead of every case one tree outside the domain (node without value / nil operand / operator without operands below the root) is formatted and one rejected text is parsed (chosen by a hash of the case): earlier calls must not matter.',
   note='Precondition of the property: valid identifiers, >=1 operand per AND/OR.'),
 'C11': dict(level='exploration', engine=E1 + ' + ' + E2, ref='§4 C11',
   technique='bounded-exhaustive enumeration of query texts x argument lists x execution sequences through ReplacePlaceholders and through database/sql (direct Query and Prepare paths)',
   text='All trees (depth 1/2) over leaves with repeated, out-of-order and gapped placeholders x all argument lists of length 0..4 over 5 values: binding equals a reference substitution and leaves the template unchanged; through database/sql every execution (sequences of length 2/3 on one prepared statement) returns the rows of the literal one-shot query, too few arguments give an error. Plus, on a grpc:// handle served by an in-process query service over the library, every sequence of up to 3 executions of one prepared statement (3 texts x 3 argument lists) in which each execution is either answered or failed by the service. Prepared-statement sequences use group-by lists of 0, 1 and 3 columns, and the harness renames the headers it got from Columns() in place after every execution (the caller owns that slice).',
   note='The literal one-shot query through the same driver is the oracle (as the property states); database/sql itself is trusted.'),
 'C12': dict(level='exploration', engine=E1, ref='§4 C12',
   technique='bounded-exhaustive enumeration of datasets x query texts x DSN option combinations, database/sql rows compared with Index.Execute on a copy of the same file',
   text='87 datasets (incl. quote-edged values, a column named count, prefix-related values) x 7 option strings (incl. an LRU size above 2^32) x all expressions (depth 1/2) x 20 group-by lists: Columns, ColumnTypes, every row scanned into typed destinations, order, counts and error behaviour must match the library result; two result sets open at the same time on one handle; prepared and direct execution with every ordered pair of argument lists. The harness renames the headers it got from Columns() in place after reading every result.',
   note='The library result is the oracle (checked by C01/C02); texts come from the formatter (checked by C10).'),
 'C13': dict(level='exploration', engine=E1 + ' + ' + E5, ref='§4 C13',
   technique='bounded-exhaustive enumeration of request batches (length 0..2/3 over 8 queries + incomplete members x 5 id patterns, long batches of 4..12) against real `updog server` processes for 4 files x 4 option combinations; library Execute on a file copy as oracle',
   text='Every batch is sent over loopback gRPC to the real server binary; order, id rule, counts, groups and all-or-nothing error behaviour are compared with the library; protobuf conversion round trip and grpc:// vs file: data source equality are checked for every query. A sixth index file holds values of 64..300 bytes that share their first 64 / 255 bytes; file 4 is grouped by ["first","name"] and by the single column "first,name" in one batch.',
   note='Loopback TCP; valid UTF-8 index strings only.'),
 'C14': dict(level='fault_enumeration', engine=E1 + ' + ' + E5, ref='§4 C14',
   technique='structural enumeration of decodable request messages (every omission at every position to depth 2, nesting to 4990) in-process under recover and over the wire against the real server with a liveness+correctness probe after every request',
   text='|E(2)|=115 930 expression shapes x request framings in-process; E(1) (quick) / E(2) (thorough) over the wire: the server process must survive every request and answer the following well-formed probe correctly; a dead server is restarted so that all crashing inputs are collected.',
   note='Random protobuf-valid byte strings are replaced by the structural enumeration.'),
 'C15': dict(level='fault_enumeration', engine=E4 + ' + ' + E2, ref='§4 C15',
   technique='enumeration of damaged-but-valid bbolt files (full product of coarse damages over all parts, every truncation, every byte flip) x open/close histories x option sets, with a non-blocking flock probe as release oracle',
   text='Every file of the damage space (1 266 quick / 3 026 thorough variants of a valid index, plus nonexistent, empty, non-bbolt files and a dangling symlink) x 20/32 histories: no panic, error for each listed incompleteness, path not created, file released after every failed open and after Close, Close idempotent.',
   note='Release is decided by flock(LOCK_EX|LOCK_NB) with GC disabled; a lock wait in a single-threaded history is a hang.'),
 'C16': dict(level='exploration', engine=E1 + ' + ' + E2 + ' + ' + E3 + ' + ' + E5, ref='§4 C16',
   technique='enumeration of pre-existing contents x writer sizes x {Flush, create, create -b} and of all read-only histories to depth 5/7 with SHA-256/size/mode comparison after every step',
   text='75 clobber cases (8 kinds of pre-existing content incl. empty and foreign bbolt databases and symlinks x 3 sizes x 3 creation paths) must fail and leave the file unchanged; for every write k of Flush a competing exclusive creation of the output path at that moment must not be overwritten; every enabled history over {4 open variants, 4 queries, GetSchema, Close} on copies of valid indexes written by all three writer paths must leave the bytes unchanged after every step; two concurrent Flush calls to one fresh path are explored under the controlled scheduler with file-system operations as scheduling points; `updog create` with an existing output is interrupted by SIGINT / SIGTERM at every point of its run (ptrace).',
   note='Runs as root: read-only permission does not by itself protect the file, the byte comparison does the work.'),
 'C19': dict(level='exploration', engine=E1 + ' + ' + E5, ref='§4 C19',
   technique='bounded-exhaustive enumeration of CSV files (6 headers / 30 header pairs x 6 field values x 0..2/3 records; prefix-collision headers; 999..2001 records; raw inputs with unquoted blanks) through the real `updog create` in both modes, output compared with the model; malformed inputs and existing outputs',
   text='Every CSV of the space is ingested by the real binary in normal and --big mode; schema (naming rule), universe, counts, per-column and joint group-by must equal the model derived from what encoding/csv reads; `updog schema` must succeed; malformed input or existing output must fail without touching the output; a command that stops consuming CPU is reported as hung.',
   note='encoding/csv defines well-formedness; row order is observable only through counting queries.'),
}

m = {"version": 1,
 "setup_cmd": "./check setup",
 "hooks": {"guard": "verif",
   "enable": "no source hooks are committed to /repo. ./check builds the working tree with `go build -C /repo -tags verif -modfile=<copy of go.mod> -overlay overlay.json`; the overlay (generated per run by tools/prep) adds /verif/harness as virtual packages zzverif/..., redirects the sync and sync/atomic imports of packages updog and updog/driver to scheduler-aware shims, and replaces two files of bbolt v1.4.0 by copies with nil-by-default hooks (write function wrapper, visible file-lock wait)",
   "baseline_off_cmd": "cd /repo && GOFLAGS=-mod=mod GOPROXY=off GOSUMDB=off GOTOOLCHAIN=local go test -vet=off -count=1 ./...",
   "source_commits": [], "add_only": True},
 "engines": [{"name": "vcheck", "path": "harness/", "serves_properties": sorted(claimed),
   "kind_free_text": "hand-written explorers in Go (bounded-exhaustive input enumeration, explicit-state BFS over histories of real objects, stateless preemption-bounded schedule exploration with the race detector in the loop, crash-point enumeration on the bbolt write path), compiled into the updog module through a build overlay"}],
 "checks": [], "notes": "see DESIGN.md; ./check <id> quick|thorough; ./check <id> --replay <file>", "not_applicable": []}
for p in props:
    i = p['id']
    if i in claimed:
        c = claimed[i]
        m['checks'].append({"property_id": i, "quick_cmd": f"./check {i} quick", "thorough_cmd": f"./check {i} thorough",
          "evidence_file": f"/verif/evidence/{i}.json", "replay_cmd_template": f"./check {i} --replay {{path}}", "engine": c['engine'],
          "level_claimed": {"category": c['level'], "text": c['text'], "design_ref": c['ref']}, "level_note": c['note'] + COMMON, "technique": c['technique']})
    else:
        m['not_applicable'].append({"property_id": i, "reason": "check not built yet in this round (driver under construction; will be claimed once it exists)"})
json.dump(m, open(os.path.join(V, 'MANIFEST.json'), 'w'), indent=1)
print("claimed", len(m['checks']), "not_applicable", len(m['not_applicable']))
