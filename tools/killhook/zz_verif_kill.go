// This file is added to package main of cmd/updog through the build overlay (never committed to /repo) to
// build the "updog-kill" binary: when VERIF_KILL_AT=k is set, the process SIGKILLs itself immediately before
// the k-th write to the database file whose path ends in VERIF_KILL_PATH. VERIF_KILL_TORN=j (optional) first
// applies the first j pages of that write (page-granular torn write). VERIF_KILL_COUNT=<file> makes the
// process only count the writes and store the count in that file at exit of each write.
package main

import (
	"fmt"
	"os"
	"strconv"
	"strings"
	"syscall"

	"go.etcd.io/bbolt"
)

func init() {
	path := os.Getenv("VERIF_KILL_PATH")
	if path == "" {
		return
	}
	at, _ := strconv.Atoi(os.Getenv("VERIF_KILL_AT"))
	torn, _ := strconv.Atoi(os.Getenv("VERIF_KILL_TORN"))
	countFile := os.Getenv("VERIF_KILL_COUNT")
	n := 0
	bbolt.VerifOpenHook = func(db *bbolt.DB) {
		if !strings.HasSuffix(db.Path(), path) {
			return
		}
		db.VerifWrapWrite(func(orig func([]byte, int64) (int, error)) func([]byte, int64) (int, error) {
			return func(b []byte, off int64) (int, error) {
				n++
				if at > 0 && n == at {
					if torn > 0 && torn*4096 < len(b) {
						orig(b[:torn*4096], off)
					}
					syscall.Kill(os.Getpid(), syscall.SIGKILL)
					select {}
				}
				r, err := orig(b, off)
				if countFile != "" {
					os.WriteFile(countFile, []byte(fmt.Sprintf("%d %d\n", n, len(b))), 0o644)
				}
				return r, err
			}
		})
	}
}
