#!/bin/bash
# runs every claimed check of the given tier sequentially; prints one summary line per check
tier=${1:-quick}
cd "$(dirname "$0")/.."
for id in $(python3 -c "import json;print(' '.join(c['property_id'] for c in json.load(open('MANIFEST.json'))['checks']))"); do
  s=$(date +%s.%N)
  out=$(./check $id $tier 2>&1); rc=$?
  e=$(date +%s.%N)
  printf "%s rc=%d %.1fs %s\n" $id $rc $(echo "$e - $s" | bc) "$(echo "$out" | tail -1 | cut -c1-200)"
  echo "$out" | grep -E "^(VIOLATION|HARNESS)" | head -3
done
python3-vt - <<'PY'
import json,jsonschema,glob
sch=json.load(open('/root/.vp/EVIDENCE.schema.json'))
for f in sorted(glob.glob('/verif/evidence/*.json')):
    try:
        jsonschema.validate(json.load(open(f)),sch)
    except Exception as e:
        print("INVALID",f,str(e)[:200])
print("evidence validated")
PY
