// prep generates the build directory for one check run:
//   - a copy of $REPO/go.mod (+ go.sum) used with -modfile
//   - rewritten copies of the non-test sources of packages "." and "driver"
//     ("sync" -> zzverif/vsync, "sync/atomic" -> zzverif/vatomic, `go f(x)` -> vsync.Go)
//   - patched copies of two bbolt files (write hook, visible flock wait)
//   - overlay.json mapping all of the above plus /verif/harness/** to virtual
//     packages github.com/akrennmair/updog/zzverif/... inside the module.
//
// usage: prep <repo> <harnessdir> <builddir>
package main

import (
	"bytes"
	"encoding/json"
	"fmt"
	"go/ast"
	"go/format"
	"go/importer"
	"go/parser"
	"go/token"
	"go/types"
	"os"
	"os/exec"
	"path/filepath"
	"sort"
	"strconv"
	"strings"
)

const modPath = "github.com/akrennmair/updog"

func die(f string, a ...any) {
	fmt.Fprintf(os.Stderr, "prep: "+f+"\n", a...)
	os.Exit(2)
}

func main() {
	if len(os.Args) != 4 {
		die("usage: prep <repo> <harnessdir> <builddir>")
	}
	repo, harness, build := os.Args[1], os.Args[2], os.Args[3]
	repo, _ = filepath.Abs(repo)
	harness, _ = filepath.Abs(harness)
	build, _ = filepath.Abs(build)
	must(os.MkdirAll(build, 0o755))

	overlay := map[string]string{}

	// 1. go.mod / go.sum copies
	copyFile(filepath.Join(repo, "go.mod"), filepath.Join(build, "go.mod"))
	copyFile(filepath.Join(repo, "go.sum"), filepath.Join(build, "go.sum"))

	// 2. rewritten sources
	for _, pkg := range []string{".", "driver", "internal/openfile"} {
		dir := filepath.Join(repo, pkg)
		ents, err := os.ReadDir(dir)
		if err != nil {
			die("%v", err)
		}
		for _, e := range ents {
			n := e.Name()
			if e.IsDir() || !strings.HasSuffix(n, ".go") || strings.HasSuffix(n, "_test.go") {
				continue
			}
			src := filepath.Join(dir, n)
			out := filepath.Join(build, "rw", pkg, n)
			must(os.MkdirAll(filepath.Dir(out), 0o755))
			if rewrite(src, out) {
				overlay[src] = out
			}
		}
	}

	// 2b. generated package zzverif/vos: package os with a scheduling point before every file-system operation
	vosFile := filepath.Join(build, "gen", "vos", "vos.go")
	must(os.MkdirAll(filepath.Dir(vosFile), 0o755))
	must(os.WriteFile(vosFile, genVos(), 0o644))
	overlay[filepath.Join(repo, "zzverif", "vos", "vos.go")] = vosFile

	// 2c. generated package zzverif/vatomic: package sync/atomic with a scheduling point before every operation
	vaFile := filepath.Join(build, "gen", "vatomic", "vatomic.go")
	must(os.MkdirAll(filepath.Dir(vaFile), 0o755))
	must(os.WriteFile(vaFile, genVatomic(), 0o644))
	overlay[filepath.Join(repo, "zzverif", "vatomic", "vatomic.go")] = vaFile

	// 3. harness packages -> virtual packages
	must(filepath.Walk(harness, func(p string, info os.FileInfo, err error) error {
		if err != nil {
			return err
		}
		if info.IsDir() || !strings.HasSuffix(p, ".go") {
			return nil
		}
		rel, _ := filepath.Rel(harness, p)
		overlay[filepath.Join(repo, "zzverif", rel)] = p
		return nil
	}))

	// 4. patched bbolt
	bdir := bboltDir(repo, build)
	patch(filepath.Join(bdir, "db.go"), filepath.Join(build, "bbolt", "db.go"), overlay, []edit{
		// bbolt's own locks become scheduling points as well (types vMutex / vRWMutex appended below): without them a
		// racy access between two bbolt calls is always ordered by the library-internal lock in a serialised run
		{anchor: "\tbatchMu sync.Mutex\n", replace: "\tbatchMu vMutex\n"},
		{anchor: "\trwlock   sync.Mutex   // Allows only one writer at a time.\n", replace: "\trwlock   vMutex   // Allows only one writer at a time.\n"},
		{anchor: "\tmetalock sync.Mutex   // Protects meta page access.\n", replace: "\tmetalock vMutex   // Protects meta page access.\n"},
		{anchor: "\tmmaplock sync.RWMutex // Protects mmap access during remapping.\n", replace: "\tmmaplock vRWMutex // Protects mmap access during remapping.\n"},
		{anchor: "\tstatlock sync.RWMutex // Protects stats access.\n", replace: "\tstatlock vRWMutex // Protects stats access.\n"},
		{anchor: "\tdb.ops.writeAt = db.file.WriteAt\n", after: "\tif VerifOpenHook != nil {\n\t\tVerifOpenHook(db)\n\t}\n"},
		{appendText: `
// ---- verif hooks (added by /verif/tools/prep; nil by default) ----

// VerifOpenHook is called by Open right after the write function is installed.
var VerifOpenHook func(db *DB)

// VerifWrapWrite wraps the function through which every change of the file content goes.
func (db *DB) VerifWrapWrite(w func(orig func(b []byte, off int64) (int, error)) func(b []byte, off int64) (int, error)) {
	db.ops.writeAt = w(db.ops.writeAt)
}

// VerifFile returns the open data file.
func (db *DB) VerifFile() *os.File { return db.file }

// VerifPoint, when set, is told about every operation on bbolt's own locks before (acquire) or after (release) it
// happens; kinds follow zzverif/vsched (2 lock, 3 unlock, 4 write-lock request, 5 write unlock, 6 rlock, 7 runlock).
var VerifPoint func(kind uint8, obj uintptr, arg int) bool

// VerifSequential, when set and true, says that only one goroutine is running: a lock that cannot be taken at once
// will never be released, so the shim panics instead of blocking forever.
var VerifSequential func() bool

// VerifSeqAcquire, when set, performs the acquisition of a sequential harness: it retries try until it succeeds and
// panics only when no other goroutine is left that could release the lock.
var VerifSeqAcquire func(try func() bool, what string)

type vMutex struct{ mu sync.Mutex }

func (m *vMutex) Lock() {
	if VerifPoint != nil && VerifPoint(2, uintptr(unsafe.Pointer(m)), 0) {
		m.mu.Lock()
		return
	}
	if VerifSequential != nil && VerifSequential() {
		if VerifSeqAcquire != nil {
			VerifSeqAcquire(m.mu.TryLock, "bbolt: lock (held by an unfinished transaction)")
			return
		}
		if !m.mu.TryLock() {
			panic(errors.New("bbolt: lock would block forever (held by an unfinished transaction; nobody else is running)"))
		}
		return
	}
	m.mu.Lock()
}

func (m *vMutex) Unlock() {
	m.mu.Unlock()
	if VerifPoint != nil {
		VerifPoint(3, uintptr(unsafe.Pointer(m)), 0)
	}
}

type vRWMutex struct{ mu sync.RWMutex }

func (m *vRWMutex) Lock() {
	if VerifPoint != nil && VerifPoint(4, uintptr(unsafe.Pointer(m)), 0) {
		VerifPoint(2, uintptr(unsafe.Pointer(m)), 0)
		m.mu.Lock()
		return
	}
	if VerifSequential != nil && VerifSequential() {
		if VerifSeqAcquire != nil {
			VerifSeqAcquire(m.mu.TryLock, "bbolt: lock (a transaction is still open)")
			return
		}
		if !m.mu.TryLock() {
			panic(errors.New("bbolt: lock would block forever (a transaction is still open; nobody else is running)"))
		}
		return
	}
	m.mu.Lock()
}

func (m *vRWMutex) Unlock() {
	m.mu.Unlock()
	if VerifPoint != nil {
		VerifPoint(5, uintptr(unsafe.Pointer(m)), 0)
	}
}

func (m *vRWMutex) RLock() {
	if VerifPoint != nil && VerifPoint(6, uintptr(unsafe.Pointer(m)), 0) {
		m.mu.RLock()
		return
	}
	if VerifSequential != nil && VerifSequential() {
		if VerifSeqAcquire != nil {
			VerifSeqAcquire(m.mu.TryRLock, "bbolt: read lock")
			return
		}
		if !m.mu.TryRLock() {
			panic(errors.New("bbolt: read lock would block forever (nobody else is running)"))
		}
		return
	}
	m.mu.RLock()
}

func (m *vRWMutex) RUnlock() {
	m.mu.RUnlock()
	if VerifPoint != nil {
		VerifPoint(7, uintptr(unsafe.Pointer(m)), 0)
	}
}
`},
	})
	patch(filepath.Join(bdir, "bolt_unix.go"), filepath.Join(build, "bbolt", "bolt_unix.go"), overlay, []edit{
		{anchor: "\t\tif err == nil {\n\t\t\treturn nil\n", replace: "\t\tif err == nil {\n\t\t\tif VerifFlocked != nil {\n\t\t\t\tVerifFlocked(db.file.Name())\n\t\t\t}\n\t\t\treturn nil\n"},
		{anchor: "\t\ttime.Sleep(flockRetryTimeout)\n", replace: "\t\tif VerifFlockWait != nil {\n\t\t\tVerifFlockWait(db.file.Name())\n\t\t} else {\n\t\t\ttime.Sleep(flockRetryTimeout)\n\t\t}\n"},
		{anchor: "func funlock(db *DB) error {\n", after: "\tif VerifFunlocked != nil {\n\t\tdefer VerifFunlocked(db.file.Name())\n\t}\n"},
		{appendText: `
// ---- verif hooks (added by /verif/tools/prep; nil by default) ----
var (
	// VerifFlockWait replaces the retry sleep of flock: it is called when the lock is held elsewhere.
	VerifFlockWait func(path string)
	// VerifFlocked is called after the file lock was obtained.
	VerifFlocked func(path string)
	// VerifFunlocked is called after the file lock was released.
	VerifFunlocked func(path string)
)
`},
	})

	b, _ := json.MarshalIndent(map[string]any{"Replace": overlay}, "", " ")
	must(os.WriteFile(filepath.Join(build, "overlay.json"), b, 0o644))

	// 5. second overlay for the self-killing updog binary: one more file in package main of cmd/updog
	kill := filepath.Join(filepath.Dir(harness), "tools", "killhook", "zz_verif_kill.go")
	if _, err := os.Stat(kill); err == nil {
		overlay[filepath.Join(repo, "cmd", "updog", "zz_verif_kill.go")] = kill
		b, _ = json.MarshalIndent(map[string]any{"Replace": overlay}, "", " ")
		must(os.WriteFile(filepath.Join(build, "overlay-kill.json"), b, 0o644))
	}
}

func must(err error) {
	if err != nil {
		die("%v", err)
	}
}

func copyFile(a, b string) {
	d, err := os.ReadFile(a)
	must(err)
	must(os.WriteFile(b, d, 0o644))
}

func bboltDir(repo, build string) string {
	cmd := exec.Command("go", "list", "-modfile="+filepath.Join(build, "go.mod"), "-m", "-f", "{{.Dir}}", "go.etcd.io/bbolt")
	cmd.Dir = repo
	cmd.Stderr = os.Stderr
	out, err := cmd.Output()
	if err != nil {
		die("cannot locate bbolt: %v", err)
	}
	return strings.TrimSpace(string(out))
}

type edit struct {
	anchor     string
	after      string // insert after anchor
	replace    string // replace anchor
	appendText string
}

func patch(src, dst string, overlay map[string]string, edits []edit) {
	d, err := os.ReadFile(src)
	must(err)
	s := string(d)
	for _, e := range edits {
		if e.appendText != "" {
			s += e.appendText
			continue
		}
		if strings.Count(s, e.anchor) != 1 {
			die("anchor %q found %d times in %s (unsupported dependency version?)", e.anchor, strings.Count(s, e.anchor), src)
		}
		if e.after != "" {
			s = strings.Replace(s, e.anchor, e.anchor+e.after, 1)
		} else {
			s = strings.Replace(s, e.anchor, e.replace, 1)
		}
	}
	must(os.MkdirAll(filepath.Dir(dst), 0o755))
	must(os.WriteFile(dst, []byte(s), 0o644))
	overlay[src] = dst
}

// rewrite writes a copy of src with sync imports redirected and go statements managed.
// It returns false when the file needed no change.
func rewrite(src, out string) bool {
	fset := token.NewFileSet()
	f, err := parser.ParseFile(fset, src, nil, parser.ParseComments)
	if err != nil {
		// leave the file alone: the compiler will report the error against the original
		return false
	}
	changed := false
	syncName := ""
	for _, im := range f.Imports {
		p, _ := strconv.Unquote(im.Path.Value)
		switch p {
		case "sync":
			if im.Name == nil {
				im.Name = ast.NewIdent("sync")
			}
			syncName = im.Name.Name
			im.Path.Value = strconv.Quote(modPath + "/zzverif/vsync")
			changed = true
		case "sync/atomic":
			if im.Name == nil {
				im.Name = ast.NewIdent("atomic")
			}
			im.Path.Value = strconv.Quote(modPath + "/zzverif/vatomic")
			changed = true
		case "os":
			// file-system operations become scheduling points (check-then-act sequences on files interleave there)
			if im.Name == nil {
				im.Name = ast.NewIdent("os")
			}
			im.Path.Value = strconv.Quote(modPath + "/zzverif/vos")
			changed = true
		}
	}
	// go statements: `go f(a, b)` -> `sync.Go(func() { f(a, b) })` with arguments evaluated first.
	// channel operations outside select: `<-ch` -> `sync.Recv(ch)` etc. (see chanEdits)
	hasGo := false
	ast.Inspect(f, func(n ast.Node) bool {
		if _, ok := n.(*ast.GoStmt); ok {
			hasGo = true
		}
		return true
	})
	hasChan := len(chanEdits(fset, f, "x")) > 0
	hasSelect := false
	ast.Inspect(f, func(n ast.Node) bool {
		if sel, ok := n.(*ast.SelectStmt); ok && selectHasComm(sel) {
			hasSelect = true
		}
		return true
	})
	if hasGo || hasChan || hasSelect {
		if syncName == "" || syncName == "_" || syncName == "." {
			syncName = "zzvsync"
			f.Imports = append(f.Imports, nil) // placeholder, real decl added below
			f.Imports = f.Imports[:len(f.Imports)-1]
			spec := &ast.ImportSpec{Name: ast.NewIdent(syncName), Path: &ast.BasicLit{Kind: token.STRING, Value: strconv.Quote(modPath + "/zzverif/vsync")}}
			f.Decls = append([]ast.Decl{&ast.GenDecl{Tok: token.IMPORT, Specs: []ast.Spec{spec}}}, f.Decls...)
		}
		if hasGo {
			rewriteGo(f, syncName)
		}
		if hasSelect {
			rewriteSelect(f, syncName)
		}
		changed = true
	}
	if !changed {
		return false
	}
	var buf bytes.Buffer
	must(format.Node(&buf, fset, f))
	src2 := buf.Bytes()
	// channel operations: text splices on the formatted source, innermost first, until none is left
	for pass := 0; hasChan && pass < 20; pass++ {
		fs := token.NewFileSet()
		f2, err := parser.ParseFile(fs, out, src2, parser.ParseComments)
		if err != nil {
			die("re-parse of rewritten %s: %v", src, err)
		}
		eds := chanEdits(fs, f2, syncName)
		if len(eds) == 0 {
			break
		}
		sort.Slice(eds, func(i, j int) bool { return eds[i].from > eds[j].from })
		for _, e := range eds {
			src2 = append(append(append([]byte{}, src2[:e.from]...), []byte(e.text(src2))...), src2[e.to:]...)
		}
	}
	must(os.WriteFile(out, src2, 0o644))
	return true
}

// chanEdit replaces the source range [from,to) of one channel operation by a call of a vsync function.
type chanEdit struct {
	from, to int
	text     func(src []byte) string
}

// chanEdits finds the channel operations that can be rewritten in this pass: receive expressions, two-value receives,
// send statements and close calls that are not a communication clause of a select and contain no other candidate.
func chanEdits(fset *token.FileSet, f *ast.File, pkg string) []chanEdit {
	off := func(p token.Pos) int { return fset.Position(p).Offset }
	txt := func(src []byte, n ast.Node) string { return string(src[off(n.Pos()):off(n.End())]) }
	skip := map[ast.Node]bool{} // communication statements of select clauses
	ast.Inspect(f, func(n ast.Node) bool {
		if cc, ok := n.(*ast.CommClause); ok && cc.Comm != nil {
			skip[cc.Comm] = true
		}
		return true
	})
	isRecv := func(e ast.Expr) (*ast.UnaryExpr, bool) {
		for {
			p, ok := e.(*ast.ParenExpr)
			if !ok {
				break
			}
			e = p.X
		}
		u, ok := e.(*ast.UnaryExpr)
		return u, ok && u.Op == token.ARROW
	}
	contains := func(n ast.Node) bool { // does n contain a candidate below itself?
		found := false
		ast.Inspect(n, func(m ast.Node) bool {
			if m == nil || m == n || found {
				return !found
			}
			switch x := m.(type) {
			case *ast.UnaryExpr:
				found = found || x.Op == token.ARROW
			case *ast.SendStmt:
				found = true
			case *ast.CallExpr:
				if id, ok := x.Fun.(*ast.Ident); ok && id.Name == "close" && len(x.Args) == 1 {
					found = true
				}
			case *ast.SelectStmt:
				return false
			}
			return !found
		})
		return found
	}
	var out []chanEdit
	handled := map[ast.Node]bool{}
	var walk func(n ast.Node) bool
	walk = func(n ast.Node) bool {
		if n == nil {
			return true
		}
		if skip[n] {
			// the communication itself stays; its operands may still contain receives, which we leave alone too
			return false
		}
		switch x := n.(type) {
		case *ast.AssignStmt:
			if len(x.Lhs) == 2 && len(x.Rhs) == 1 {
				if u, ok := isRecv(x.Rhs[0]); ok && !contains(u) {
					handled[u] = true
					r := x.Rhs[0]
					out = append(out, chanEdit{off(r.Pos()), off(r.End()), func(src []byte) string { return pkg + ".Recv2(" + txt(src, u.X) + ")" }})
				}
			}
		case *ast.ValueSpec:
			if len(x.Names) == 2 && len(x.Values) == 1 {
				if u, ok := isRecv(x.Values[0]); ok && !contains(u) {
					handled[u] = true
					r := x.Values[0]
					out = append(out, chanEdit{off(r.Pos()), off(r.End()), func(src []byte) string { return pkg + ".Recv2(" + txt(src, u.X) + ")" }})
				}
			}
		case *ast.UnaryExpr:
			if x.Op == token.ARROW && !handled[x] && !contains(x) {
				out = append(out, chanEdit{off(x.Pos()), off(x.End()), func(src []byte) string { return pkg + ".Recv(" + txt(src, x.X) + ")" }})
			}
		case *ast.SendStmt:
			if !contains(x) {
				out = append(out, chanEdit{off(x.Pos()), off(x.End()), func(src []byte) string { return pkg + ".Send(" + txt(src, x.Chan) + ", " + txt(src, x.Value) + ")" }})
			}
		case *ast.CallExpr:
			if id, ok := x.Fun.(*ast.Ident); ok && id.Name == "close" && len(x.Args) == 1 && !contains(x) {
				out = append(out, chanEdit{off(x.Pos()), off(x.End()), func(src []byte) string { return pkg + ".Close(" + txt(src, x.Args[0]) + ")" }})
			}
		}
		return true
	}
	ast.Inspect(f, walk)
	return out
}

func rewriteGo(f *ast.File, syncName string) {
	ctr := 0
	var fix func(list []ast.Stmt) []ast.Stmt
	conv := func(g *ast.GoStmt) ast.Stmt {
		// evaluate function value and arguments now, run the call in a managed goroutine
		var pre []ast.Stmt
		call := *g.Call
		args := make([]ast.Expr, len(call.Args))
		for i, a := range call.Args {
			ctr++
			id := ast.NewIdent(fmt.Sprintf("zzGoArg%d", ctr))
			pre = append(pre, &ast.AssignStmt{Lhs: []ast.Expr{id}, Tok: token.DEFINE, Rhs: []ast.Expr{a}})
			args[i] = id
		}
		call.Args = args
		fun := call.Fun
		if _, isLit := fun.(*ast.FuncLit); !isLit {
			ctr++
			id := ast.NewIdent(fmt.Sprintf("zzGoFun%d", ctr))
			pre = append(pre, &ast.AssignStmt{Lhs: []ast.Expr{id}, Tok: token.DEFINE, Rhs: []ast.Expr{fun}})
			call.Fun = id
		}
		managed := &ast.ExprStmt{X: &ast.CallExpr{
			Fun:  &ast.SelectorExpr{X: ast.NewIdent(syncName), Sel: ast.NewIdent("Go")},
			Args: []ast.Expr{&ast.FuncLit{Type: &ast.FuncType{Params: &ast.FieldList{}}, Body: &ast.BlockStmt{List: []ast.Stmt{&ast.ExprStmt{X: &call}}}}},
		}}
		return &ast.BlockStmt{List: append(pre, managed)}
	}
	fix = func(list []ast.Stmt) []ast.Stmt {
		for i, s := range list {
			if g, ok := s.(*ast.GoStmt); ok {
				list[i] = conv(g)
			}
		}
		return list
	}
	ast.Inspect(f, func(n ast.Node) bool {
		switch b := n.(type) {
		case *ast.BlockStmt:
			b.List = fix(b.List)
		case *ast.CaseClause:
			b.Body = fix(b.Body)
		case *ast.CommClause:
			b.Body = fix(b.Body)
		case *ast.LabeledStmt:
			if g, ok := b.Stmt.(*ast.GoStmt); ok {
				b.Stmt = conv(g)
			}
		}
		return true
	})
}

// vosPoints: the functions of package os that observe or change the file system by name: each gets a scheduling point.
var vosPoints = map[string]bool{"OpenFile": true, "Open": true, "Create": true, "CreateTemp": true, "Remove": true, "RemoveAll": true,
	"Rename": true, "Stat": true, "Lstat": true, "Mkdir": true, "MkdirAll": true, "MkdirTemp": true, "ReadFile": true, "WriteFile": true,
	"Symlink": true, "Link": true, "Truncate": true, "Chmod": true, "Chtimes": true, "ReadDir": true, "Readlink": true, "Chown": true, "Lchown": true}

// genVos generates package vos from the export data of package os: every exported type, constant, variable and function
// is re-exported (so that rewritten sources compile unchanged whatever they use); the functions in vosPoints announce
// themselves to the scheduler first.
func genVos() []byte {
	fset := token.NewFileSet()
	pkg, err := importer.ForCompiler(fset, "source", nil).Import("os")
	if err != nil {
		die("cannot load package os: %v", err)
	}
	imports := map[string]string{"os": "os"}
	qual := func(p *types.Package) string {
		if p.Path() == "os" {
			return "os"
		}
		name := "zz" + strings.ReplaceAll(strings.ReplaceAll(p.Path(), "/", "_"), ".", "_")
		imports[p.Path()] = name
		return name
	}
	var body bytes.Buffer
	names := pkg.Scope().Names()
	idx := 0
	for _, n := range names {
		obj := pkg.Scope().Lookup(n)
		if !obj.Exported() {
			continue
		}
		switch o := obj.(type) {
		case *types.TypeName:
			tp := ""
			if named, ok := o.Type().(*types.Named); ok && named.TypeParams().Len() > 0 {
				continue // no generic types in package os
			}
			fmt.Fprintf(&body, "type %s%s = os.%s\n", n, tp, n)
		case *types.Const:
			fmt.Fprintf(&body, "const %s = os.%s\n", n, n)
		case *types.Var:
			fmt.Fprintf(&body, "var %s = os.%s\n", n, n)
		case *types.Func:
			sig := o.Type().(*types.Signature)
			if sig.TypeParams().Len() > 0 {
				continue
			}
			var params, args []string
			for i := 0; i < sig.Params().Len(); i++ {
				pv := sig.Params().At(i)
				ts := types.TypeString(pv.Type(), qual)
				arg := fmt.Sprintf("a%d", i)
				if sig.Variadic() && i == sig.Params().Len()-1 {
					ts = "..." + strings.TrimPrefix(ts, "[]")
					arg += "..."
				}
				params = append(params, fmt.Sprintf("a%d %s", i, ts))
				args = append(args, arg)
			}
			var results []string
			for i := 0; i < sig.Results().Len(); i++ {
				results = append(results, types.TypeString(sig.Results().At(i).Type(), qual))
			}
			res := ""
			if len(results) > 0 {
				res = " (" + strings.Join(results, ", ") + ")"
			}
			fmt.Fprintf(&body, "func %s(%s)%s {\n", n, strings.Join(params, ", "), res)
			if vosPoints[n] {
				idx++
				fmt.Fprintf(&body, "\tvsched.Point(vsched.OpAtomic, %d, 0) // file-system operation\n", 0x7000+idx)
			}
			call := fmt.Sprintf("os.%s(%s)", n, strings.Join(args, ", "))
			if len(results) > 0 {
				fmt.Fprintf(&body, "\treturn %s\n}\n", call)
			} else {
				fmt.Fprintf(&body, "\t%s\n}\n", call)
			}
		}
	}
	var out bytes.Buffer
	out.WriteString("// Code generated by /verif/tools/prep from the export data of package os. DO NOT EDIT.\n\n")
	out.WriteString("// Package vos is package os with a scheduling point before every operation that observes or changes the file system by name.\npackage vos\n\nimport (\n")
	var paths []string
	for p := range imports {
		paths = append(paths, p)
	}
	sort.Strings(paths)
	for _, p := range paths {
		fmt.Fprintf(&out, "\t%s %q\n", imports[p], p)
	}
	fmt.Fprintf(&out, "\t%q\n)\n\n", modPath+"/zzverif/vsched")
	out.Write(body.Bytes())
	src, err := format.Source(out.Bytes())
	if err != nil {
		die("generated vos does not format: %v\n%s", err, out.String())
	}
	return src
}

func selectHasComm(sel *ast.SelectStmt) bool {
	for _, c := range sel.Body.List {
		if cc, ok := c.(*ast.CommClause); ok && cc.Comm != nil {
			return true
		}
	}
	return false
}

// rewriteSelect brackets every select statement that has communication clauses:
//
//	select { case <-a: X; default: Y }   ->   { zzSelN := sync.SelectBegin(); select { case <-a: sync.SelectEnd(zzSelN); X; default: sync.SelectEnd(zzSelN); Y } }
//
// (a label stays on the select itself, so that `break L` keeps its meaning).
func rewriteSelect(f *ast.File, syncName string) {
	ctr := 0
	done := map[*ast.SelectStmt]bool{}
	wrap := func(s ast.Stmt) ast.Stmt {
		var label *ast.LabeledStmt
		inner := s
		if l, ok := s.(*ast.LabeledStmt); ok {
			label, inner = l, l.Stmt
		}
		sel, ok := inner.(*ast.SelectStmt)
		if !ok || done[sel] || !selectHasComm(sel) {
			return s
		}
		done[sel] = true
		ctr++
		id := fmt.Sprintf("zzSel%d", ctr)
		call := func(fn string, args ...ast.Expr) *ast.CallExpr {
			return &ast.CallExpr{Fun: &ast.SelectorExpr{X: ast.NewIdent(syncName), Sel: ast.NewIdent(fn)}, Args: args}
		}
		for _, c := range sel.Body.List {
			cc := c.(*ast.CommClause)
			cc.Body = append([]ast.Stmt{&ast.ExprStmt{X: call("SelectEnd", ast.NewIdent(id))}}, cc.Body...)
		}
		begin := &ast.AssignStmt{Lhs: []ast.Expr{ast.NewIdent(id)}, Tok: token.DEFINE, Rhs: []ast.Expr{call("SelectBegin")}}
		var st ast.Stmt = sel
		if label != nil {
			st = label
		}
		return &ast.BlockStmt{List: []ast.Stmt{begin, st}}
	}
	fix := func(list []ast.Stmt) {
		for i, s := range list {
			list[i] = wrap(s)
		}
	}
	ast.Inspect(f, func(n ast.Node) bool {
		switch b := n.(type) {
		case *ast.BlockStmt:
			fix(b.List)
		case *ast.CaseClause:
			fix(b.Body)
		case *ast.CommClause:
			fix(b.Body)
		}
		return true
	})
}

// genVatomic generates package vatomic from the export data of sync/atomic: every function and every method of every
// type is wrapped so that it announces a scheduling point (object = the address operated on) before the real operation.
func genVatomic() []byte {
	fset := token.NewFileSet()
	pkg, err := importer.ForCompiler(fset, "source", nil).Import("sync/atomic")
	if err != nil {
		die("cannot load package sync/atomic: %v", err)
	}
	qual := func(p *types.Package) string {
		if p.Path() == "sync/atomic" {
			return "atomic"
		}
		return p.Name()
	}
	sigParts := func(sig *types.Signature) (params, args, res string) {
		var ps, as, rs []string
		for i := 0; i < sig.Params().Len(); i++ {
			ps = append(ps, fmt.Sprintf("a%d %s", i, types.TypeString(sig.Params().At(i).Type(), qual)))
			as = append(as, fmt.Sprintf("a%d", i))
		}
		for i := 0; i < sig.Results().Len(); i++ {
			rs = append(rs, types.TypeString(sig.Results().At(i).Type(), qual))
		}
		if len(rs) > 0 {
			res = " (" + strings.Join(rs, ", ") + ")"
		}
		return strings.Join(ps, ", "), strings.Join(as, ", "), res
	}
	var body bytes.Buffer
	for _, n := range pkg.Scope().Names() {
		obj := pkg.Scope().Lookup(n)
		if !obj.Exported() {
			continue
		}
		switch o := obj.(type) {
		case *types.Func:
			sig := o.Type().(*types.Signature)
			ps, as, res := sigParts(sig)
			ret := ""
			if sig.Results().Len() > 0 {
				ret = "return "
			}
			fmt.Fprintf(&body, "func %s(%s)%s {\n\tpt(unsafe.Pointer(a0))\n\t%satomic.%s(%s)\n}\n", n, ps, res, ret, n, as)
		case *types.TypeName:
			named, ok := o.Type().(*types.Named)
			if !ok {
				continue
			}
			tparams, targs := "", ""
			if named.TypeParams().Len() > 0 {
				var tp, ta []string
				for i := 0; i < named.TypeParams().Len(); i++ {
					p := named.TypeParams().At(i)
					tp = append(tp, p.Obj().Name()+" "+types.TypeString(p.Constraint(), qual))
					ta = append(ta, p.Obj().Name())
				}
				tparams, targs = "["+strings.Join(tp, ", ")+"]", "["+strings.Join(ta, ", ")+"]"
			}
			fmt.Fprintf(&body, "type %s%s struct{ v atomic.%s%s }\n", n, tparams, n, targs)
			ms := types.NewMethodSet(types.NewPointer(named))
			for i := 0; i < ms.Len(); i++ {
				m := ms.At(i).Obj().(*types.Func)
				if !m.Exported() {
					continue
				}
				sig := m.Type().(*types.Signature)
				ps, as, res := sigParts(sig)
				ret := ""
				if sig.Results().Len() > 0 {
					ret = "return "
				}
				fmt.Fprintf(&body, "func (x *%s%s) %s(%s)%s {\n\tpt(unsafe.Pointer(x))\n\t%sx.v.%s(%s)\n}\n", n, targs, m.Name(), ps, res, ret, m.Name(), as)
			}
		}
	}
	var out bytes.Buffer
	out.WriteString("// Code generated by /verif/tools/prep from the export data of sync/atomic. DO NOT EDIT.\n\n")
	out.WriteString("// Package vatomic is sync/atomic with a scheduling point before every operation.\npackage vatomic\n\nimport (\n\t\"sync/atomic\"\n\t\"unsafe\"\n\n")
	fmt.Fprintf(&out, "\t%q\n)\n\n", modPath+"/zzverif/vsched")
	out.WriteString("func pt(p unsafe.Pointer) { vsched.Point(vsched.OpAtomic, uintptr(p), 0) }\n\n")
	out.Write(body.Bytes())
	src, err := format.Source(out.Bytes())
	if err != nil {
		die("generated vatomic does not format: %v\n%s", err, out.String())
	}
	return src
}
