module verif/tools/prep

go 1.23
