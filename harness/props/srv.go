package props

import (
	"bytes"
	"context"
	"fmt"
	"net"
	"os"
	"os/exec"
	"syscall"
	"time"

	updogv1 "github.com/akrennmair/updog/proto/updog/v1"
	"github.com/akrennmair/updog/zzverif/rt"
	"google.golang.org/grpc"
	"google.golang.org/grpc/codes"
	"google.golang.org/grpc/credentials/insecure"
	"google.golang.org/grpc/status"
)

// updogServer is a real `updog server` child process on a loopback port plus a client connection.
type updogServer struct {
	cmd    *exec.Cmd
	addr   string
	conn   *grpc.ClientConn
	client updogv1.QueryServiceClient
	stderr *bytes.Buffer
	exited chan struct{}
	file   string
	cache  bool
	pre    bool
}

func freePort() int {
	l, err := net.Listen("tcp", "127.0.0.1:0")
	if err != nil {
		rt.Harnessf("no loopback port: %v", err)
	}
	defer l.Close()
	return l.Addr().(*net.TCPAddr).Port
}

func startServer(file string, cache, preload bool) *updogServer {
	return startServerBin(os.Getenv("VCHECK_UPDOG_BIN"), nil, file, cache, preload)
}

// srvExtraArgs are appended to the command line of every server started (set by checks that enumerate flag combinations).
var srvExtraArgs []string

func startServerBin(bin string, env []string, file string, cache, preload bool) *updogServer {
	if bin == "" {
		rt.Harnessf("updog binary not set (VCHECK_UPDOG_BIN / VCHECK_UPDOG_RACE_BIN)")
	}
	for attempt := 0; attempt < 5; attempt++ {
		s := &updogServer{addr: fmt.Sprintf("127.0.0.1:%d", freePort()), stderr: &bytes.Buffer{}, exited: make(chan struct{}), file: file, cache: cache, pre: preload}
		args := []string{"server", "-f", file, "-l", s.addr, "-d", "127.0.0.1:0", fmt.Sprintf("--enable-cache=%v", cache)}
		if preload {
			args = append(args, "-p")
		}
		args = append(args, srvExtraArgs...)
		s.cmd = exec.Command(bin, args...)
		s.cmd.Env = append(os.Environ(), env...)
		s.cmd.Stderr = s.stderr
		s.cmd.Stdout = s.stderr
		s.cmd.SysProcAttr = &syscall.SysProcAttr{Pdeathsig: syscall.SIGKILL}
		if err := s.cmd.Start(); err != nil {
			rt.Harnessf("cannot start server: %v", err)
		}
		go func() { s.cmd.Wait(); close(s.exited) }()
		var err error
		s.conn, err = grpc.NewClient(s.addr, grpc.WithTransportCredentials(insecure.NewCredentials()))
		if err != nil {
			rt.Harnessf("grpc client: %v", err)
		}
		s.client = updogv1.NewQueryServiceClient(s.conn)
		// readiness (harness plumbing, not an oracle): a query on a column that does not exist must come back, with an
		// answer or with an error status from the handler - anything but "unavailable"
		ready := false
		for i := 0; i < 400; i++ {
			ctx, cancel := context.WithTimeout(context.Background(), 2*time.Second)
			_, err := s.client.Query(ctx, &updogv1.QueryRequest{Queries: []*updogv1.Query{{Expr: &updogv1.Query_Expression{Value: &updogv1.Query_Expression_Eq{Eq: &updogv1.Query_Expression_Equal{Column: "\x01readiness probe\x01", Value: "x"}}}}}})
			cancel()
			if err == nil || (status.Code(err) != codes.Unavailable && status.Code(err) != codes.DeadlineExceeded) {
				ready = true
				break
			}
			if !s.alive() {
				break
			}
			time.Sleep(10 * time.Millisecond)
		}
		if ready {
			return s
		}
		s.stop()
	}
	rt.Harnessf("server does not come up")
	return nil
}

func (s *updogServer) alive() bool {
	select {
	case <-s.exited:
		return false
	default:
		return true
	}
}

func (s *updogServer) stop() {
	if s.conn != nil {
		s.conn.Close()
	}
	if s.alive() {
		s.cmd.Process.Kill()
		<-s.exited
	}
}

// waitDead gives a crashing server a moment to finish dying (process exit is asynchronous to the RPC error).
func (s *updogServer) waitDead() bool {
	select {
	case <-s.exited:
		return true
	case <-time.After(1500 * time.Millisecond):
		return false
	}
}

func (s *updogServer) query(req *updogv1.QueryRequest) (*updogv1.QueryResponse, error) {
	ctx, cancel := context.WithTimeout(context.Background(), 8*time.Second)
	defer cancel()
	return s.client.Query(ctx, req)
}
