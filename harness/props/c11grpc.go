package props

import (
	"context"
	"database/sql"
	"fmt"
	"net"
	"os"
	"strings"
	"sync/atomic"

	"github.com/akrennmair/updog"
	"github.com/akrennmair/updog/internal/convert"
	updogv1 "github.com/akrennmair/updog/proto/updog/v1"
	"github.com/akrennmair/updog/zzverif/rt"
	"google.golang.org/grpc"
	"google.golang.org/grpc/codes"
	"google.golang.org/grpc/status"
)

// c11Stub is a query service over the library (what cmd/updog's handler does) whose next answer can be turned into a
// transport-level failure: the environment answer "this execution fails" of a prepared statement on a grpc:// handle.
type c11Stub struct {
	updogv1.UnimplementedQueryServiceServer
	idx  *updog.Index
	fail atomic.Bool
}

func (s *c11Stub) Query(ctx context.Context, req *updogv1.QueryRequest) (*updogv1.QueryResponse, error) {
	if s.fail.Swap(false) {
		return nil, status.Error(codes.Unavailable, "injected failure")
	}
	var resp updogv1.QueryResponse
	for i, pbq := range req.Queries {
		qid := pbq.Id
		if qid == 0 {
			qid = int32(i + 1)
		}
		r, err := s.idx.Execute(convert.ToQuery(pbq))
		if err != nil {
			return nil, err
		}
		resp.Results = append(resp.Results, convert.ToProtobufResult(r, qid))
	}
	return &resp, nil
}

// c11Grpc: every sequence of up to 3 executions of one prepared statement on a grpc:// handle (one pooled connection),
// each execution with one of 3 argument lists and each either answered or failed by the service: an answered execution
// must return what the file handle returns for the same text and arguments; a failed one must return an error; what a
// failed execution did to the statement must not show in later ones.
func c11Grpc(w *c11World, ctx *rt.Ctx) *rt.Violation {
	b, err := os.ReadFile(w.path)
	if err != nil {
		rt.Harnessf("c11 grpc: %v", err)
	}
	cp := w.path + ".grpc"
	os.WriteFile(cp, b, 0o644)
	defer removeFile(cp)
	idx, err := updog.OpenIndex(cp)
	if err != nil {
		rt.Harnessf("c11 grpc: %v", err)
	}
	defer idx.Close()
	l, err := net.Listen("tcp", "127.0.0.1:0")
	if err != nil {
		rt.Harnessf("c11 grpc: %v", err)
	}
	stub := &c11Stub{idx: idx}
	gs := grpc.NewServer()
	updogv1.RegisterQueryServiceServer(gs, stub)
	go gs.Serve(l)
	defer gs.Stop()

	argLists := [][]any{{"1", "2"}, {"2", "1"}, {"é", "q\"\n"}}
	texts := []string{"a = $1 | b = $2", "a = $1 & ^ b = $2 ; g", "a = $2 ; g"}
	type step struct {
		arg  int
		fail bool
	}
	var seqs [][]step
	var gen func(cur []step)
	gen = func(cur []step) {
		if len(cur) > 0 {
			seqs = append(seqs, append([]step{}, cur...))
		}
		if len(cur) == 3 {
			return
		}
		for a := range argLists {
			for _, f := range []bool{false, true} {
				gen(append(cur, step{a, f}))
			}
		}
	}
	gen(nil)
	read := func(rows *sql.Rows, err error) string {
		if err != nil {
			return "error: " + err.Error()
		}
		s, err := scanAll(rows)
		if err != nil {
			return "scan error: " + err.Error()
		}
		return s
	}
	for _, text := range texts {
		want := make([]string, len(argLists))
		for i, a := range argLists {
			want[i] = read(w.db.Query(text, a...))
		}
		for _, sq := range seqs {
			ctx.Cov.Add("grpc_failed_execution_sequences", 1)
			ctx.Cov.Add("evaluations", 1)
			viol := func() (v string) {
				defer func() {
					if p := recover(); p != nil {
						v = fmt.Sprintf("panic: %v", p)
					}
				}()
				gdb, err := sql.Open("updog", "grpc://"+l.Addr().String())
				if err != nil {
					rt.Harnessf("c11 grpc: %v", err)
				}
				defer gdb.Close()
				gdb.SetMaxOpenConns(1)
				st, err := gdb.Prepare(text)
				if err != nil {
					return "Prepare failed: " + err.Error()
				}
				defer st.Close()
				for n, s := range sq {
					stub.fail.Store(s.fail)
					got := read(st.Query(argLists[s.arg]...))
					stub.fail.Store(false)
					if s.fail {
						if !strings.HasPrefix(got, "error") {
							return fmt.Sprintf("execution %d was failed by the service but returned %s", n+1, got)
						}
						continue
					}
					if got != want[s.arg] {
						return fmt.Sprintf("execution %d of the prepared statement with %q returned %s; the file handle returns %s for the same text and arguments", n+1, argLists[s.arg], got, want[s.arg])
					}
				}
				return ""
			}()
			if viol != "" {
				var d []string
				for _, s := range sq {
					d = append(d, fmt.Sprintf("%v/failed=%v", argLists[s.arg], s.fail))
				}
				c := c11Case{Kind: "grpc", Raw: "grpc:" + text, Args: [][]any{{strings.Join(d, " ; ")}}}
				return rt.NewViolation("C11", "bind", c.sig(), c, "prepared statement %q on a grpc:// handle, executions %s: %s", text, strings.Join(d, " ; "), viol)
			}
		}
	}
	return nil
}
