package props

import (
	"container/list"
	"encoding/json"
	"fmt"
	"reflect"
	"sort"
	"strings"
	"unsafe"

	"github.com/RoaringBitmap/roaring"
	"github.com/akrennmair/updog"
	"github.com/akrennmair/updog/zzverif/flk"
	"github.com/akrennmair/updog/zzverif/rt"
)

// C07 — LRU cache: explicit-state search over Put/Get histories of the real LRUCache.
//
// Alphabet: Get(k), Put(k, class) for k in {1,2,3} and 4 bitmap size classes. A state is the shortest
// history reaching it; the successor is computed by replaying that history on a fresh real cache and
// applying one more operation. States are merged on (dump of the real internal state, model state).
// Relations R1..R6 (see DESIGN.md §2) are checked on every transition; residency is observed
// black-box by probing replayed copies with Get.

const lruSlack = 128 // generous reading of "fits": size + 128 bytes per entry (real overhead: 64)

type lruOp struct {
	Get   bool   `json:"get,omitempty"`
	Key   uint64 `json:"k"`
	Class int    `json:"c,omitempty"` // size class index for Put
}

func (o lruOp) String() string {
	if o.Get {
		return fmt.Sprintf("Get(%d)", o.Key)
	}
	return fmt.Sprintf("Put(%d,%s)", o.Key, lruClassNames[o.Class])
}

var lruClassNames = []string{"empty", "small", "medium", "large"}

type lruCase struct {
	Cap     uint64  `json:"cap"`
	Metrics bool    `json:"metrics"`
	Ops     []lruOp `json:"ops"`
}

func (c lruCase) sig() string {
	var s []string
	for _, o := range c.Ops {
		s = append(s, o.String())
	}
	return fmt.Sprintf("cap=%d metrics=%v %s", c.Cap, c.Metrics, strings.Join(s, ";"))
}

type counter struct{ n int }

func (c *counter) Inc() { c.n++ }

// lruWorld is a fresh real cache plus the bitmaps of the alphabet (one object per key and class, so a
// bitmap returned under the wrong key is recognised by identity).
type lruWorld struct {
	cache               *updog.LRUCache
	bms                 *[4][4]*roaring.Bitmap // [key][class]; shared between worlds: the cache only stores pointers
	hit, miss, get, put *counter
	hung                string // a call that panicked or would block forever
}

func lruBitmap(class int, key uint64) *roaring.Bitmap {
	bm := roaring.New()
	switch class {
	case 1:
		for i := uint32(0); i < 8; i++ {
			bm.Add(i*3 + uint32(key))
		}
	case 2:
		for i := uint32(0); i < 150; i++ {
			bm.Add(i*5 + uint32(key))
		}
	case 3:
		for i := uint32(0); i < 6000; i++ {
			bm.Add(i*7 + uint32(key))
		}
	}
	return bm
}

func newLRUWorld(cap uint64, metrics bool) *lruWorld {
	w := &lruWorld{hit: &counter{}, miss: &counter{}, get: &counter{}, put: &counter{}}
	if metrics {
		w.cache = updog.NewLRUCache(cap, updog.WithCacheMetrics(&updog.CacheMetrics{CacheHit: w.hit, CacheMiss: w.miss, GetCall: w.get, PutCall: w.put}))
	} else {
		w.cache = updog.NewLRUCache(cap)
	}
	w.bms = &lruCanon
	return w
}

func (w *lruWorld) apply(o lruOp) (bm *roaring.Bitmap, ok bool) {
	defer func() {
		if r := recover(); r != nil {
			w.hung = fmt.Sprintf("%s: %v", o, r)
			bm, ok = nil, false
		}
	}()
	if o.Get {
		return w.cache.Get(lruKey(o.Key))
	}
	w.cache.Put(lruKey(o.Key), w.bms[o.Key][o.Class])
	return nil, false
}

// lruModel is the boring reference: what was last stored under each key and when each key was last used.
type lruModel struct {
	last    map[uint64]int // key -> class last Put
	lastUse map[uint64]int // key -> time of last use (Put or Get hit)
	clock   int
}

func newLRUModel() *lruModel { return &lruModel{last: map[uint64]int{}, lastUse: map[uint64]int{}} }

func (m *lruModel) key() string {
	type kv struct {
		k uint64
		t int
	}
	var l []kv
	for k, t := range m.lastUse {
		l = append(l, kv{k, t})
	}
	sort.Slice(l, func(i, j int) bool { return l[i].t < l[j].t })
	var b strings.Builder
	for _, e := range l {
		fmt.Fprintf(&b, "%d:%d,", e.k, m.last[e.k])
	}
	return b.String()
}

// lruKey maps the key numbers 1..3 of the alphabet to the keys handed to the cache: key 3 is 1 + 2^32, congruent to
// key 1 modulo every power of two up to 2^32 (a filter, a shard index or a truncated key derived from the low bits
// must not confuse them).
func lruKey(k uint64) uint64 {
	if k == 3 {
		return 1 + 1<<32
	}
	return k
}

// residency by black-box probing: replay ops on fresh caches and Get each key.
func lruResident(cap uint64, metrics bool, ops []lruOp) map[uint64]*roaring.Bitmap {
	res := map[uint64]*roaring.Bitmap{}
	for k := uint64(1); k <= 3; k++ {
		w := newLRUWorld(cap, metrics)
		for _, o := range ops {
			w.apply(o)
		}
		if bm, ok := w.cache.Get(lruKey(k)); ok {
			res[k] = w.identify(bm)
		}
	}
	return res
}

// identify returns a canonical bitmap (from a shared table) equal in identity class to bm of this world.
func (w *lruWorld) identify(bm *roaring.Bitmap) *roaring.Bitmap {
	for k := 1; k <= 3; k++ {
		for c := 0; c < 4; c++ {
			if w.bms[k][c] == bm {
				return lruCanon[k][c]
			}
		}
	}
	return lruForeign
}

var (
	lruCanon   [4][4]*roaring.Bitmap
	lruForeign = roaring.New()
	lruSizes   [4]uint64
)

func init() {
	for k := 1; k <= 3; k++ {
		for c := 0; c < 4; c++ {
			lruCanon[k][c] = lruBitmap(c, uint64(k))
		}
	}
	for c := 0; c < 4; c++ {
		lruSizes[c] = lruCanon[1][c].GetSizeInBytes()
	}
}

// lruCheckLast replays c.Ops and checks relations R1..R6 for the LAST operation only (all earlier
// transitions are checked when their own states are expanded). It returns "" or a description.
func lruCheckLast(c lruCase) (string, string) {
	n := len(c.Ops)
	prev, op := c.Ops[:n-1], c.Ops[n-1]
	w := newLRUWorld(c.Cap, c.Metrics)
	m := newLRUModel()
	for _, o := range prev {
		bm, ok := w.apply(o)
		m.step(o, ok)
		_ = bm
	}
	before := [4]int{w.hit.n, w.miss.n, w.get.n, w.put.n}
	resBefore := lruResident(c.Cap, c.Metrics, prev)
	bm, found := w.apply(op)
	if w.hung != "" {
		return "the call never returns or panics: " + w.hung, ""
	}
	after := [4]int{w.hit.n, w.miss.n, w.get.n, w.put.n}
	resAfter := lruResident(c.Cap, c.Metrics, c.Ops)
	lastBefore := map[uint64]int{}
	for k, v := range m.last {
		lastBefore[k] = v
	}
	m.step(op, found)

	// R6 counters
	if c.Metrics {
		want := before
		if op.Get {
			want[2]++
			if found {
				want[0]++
			} else {
				want[1]++
			}
		} else {
			want[3]++
		}
		if after != want {
			return fmt.Sprintf("R6 counters (hit,miss,get,put) moved from %v to %v, want %v", before, after, want), ""
		}
	}
	if op.Get {
		// R1 hit returns the bitmap most recently stored under that key
		if found {
			cl, stored := lastBefore[op.Key]
			if !stored || bm != w.bms[op.Key][cl] {
				return fmt.Sprintf("R1 %s hit returned a bitmap that is not the one last stored under that key", op), ""
			}
		} else if bm != nil {
			return fmt.Sprintf("R1 %s missed but returned a bitmap", op), ""
		}
		// hit/miss must agree with black-box residency before the call
		if _, r := resBefore[op.Key]; r != found {
			return fmt.Sprintf("R1 %s found=%v but a probe of the same state says resident=%v", op, found, r), ""
		}
	}
	// R1 for every resident key (probe): pointer identity with the last stored bitmap
	for k, got := range resAfter {
		cl, stored := m.last[k]
		if !stored || got != lruCanon[k][cl] {
			return fmt.Sprintf("R1 after %s key %d is retrievable but yields a bitmap other than the one last stored under it", op, k), ""
		}
	}
	if !op.Get {
		// R2 byte bound
		var sum uint64
		for _, got := range resAfter {
			sum += got.GetSizeInBytes()
		}
		if sum > c.Cap {
			return fmt.Sprintf("R2 after %s the retrievable bitmaps total %d bytes > capacity %d", op, sum, c.Cap), ""
		}
		// R4 an entry that fits is retrievable right after it was stored
		if lruSizes[op.Class]+lruSlack <= c.Cap {
			if _, ok := resAfter[op.Key]; !ok {
				return fmt.Sprintf("R4 %s fits (%d+%d <= %d) but is not retrievable right after", op, lruSizes[op.Class], lruSlack, c.Cap), ""
			}
		}
	}
	// R5 nothing is evicted while everything fits comfortably
	{
		var need uint64
		keys := map[uint64]bool{}
		for k := range resBefore {
			keys[k] = true
		}
		if !op.Get {
			keys[op.Key] = true
		}
		for k := range keys {
			need += lruSizes[m.last[k]] + lruSlack
		}
		if need <= c.Cap {
			for k := range keys {
				if _, ok := resAfter[k]; !ok {
					return fmt.Sprintf("R5 %s evicted key %d although everything fits comfortably (%d <= %d)", op, k, need, c.Cap), ""
				}
			}
		}
	}
	// R3 LRU order: every resident key was used more recently than every stored, fitting, non-resident key
	for kr := range resAfter {
		for kn, cl := range m.last {
			if _, r := resAfter[kn]; r {
				continue
			}
			if lruSizes[cl]+lruSlack > c.Cap {
				continue // an entry that does not fit on its own is never required to stay
			}
			if m.lastUse[kr] < m.lastUse[kn] {
				return fmt.Sprintf("R3 after %s key %d is resident although key %d was used more recently and was evicted", op, kr, kn), ""
			}
		}
	}
	// a resident set can only gain the key that was Put
	for k := range resAfter {
		if _, r := resBefore[k]; !r && (op.Get || k != op.Key) {
			return fmt.Sprintf("R1 after %s key %d became retrievable without being stored", op, k), ""
		}
	}
	return "", lruDump(w.cache) + "|" + m.key()
}

func (m *lruModel) step(o lruOp, found bool) {
	m.clock++
	if o.Get {
		if found {
			m.lastUse[o.Key] = m.clock
		}
		return
	}
	m.last[o.Key] = o.Class
	m.lastUse[o.Key] = m.clock
}

// lruDump returns a canonical dump of the real internal state (recency-ordered entries with their accounted
// sizes, and the byte counter). If the private fields cannot be bound, "" is returned and the caller falls
// back to not merging states.
func lruDump(c *updog.LRUCache) (out string) {
	defer func() {
		if recover() != nil {
			out = ""
		}
	}()
	v := reflect.ValueOf(c).Elem()
	lf := v.FieldByName("lruList")
	cs := v.FieldByName("curSize")
	if !lf.IsValid() || !cs.IsValid() {
		return ""
	}
	l := *(**list.List)(unsafe.Pointer(lf.UnsafeAddr()))
	var b strings.Builder
	for e := l.Front(); e != nil; e = e.Next() {
		it := reflect.ValueOf(e.Value).Elem()
		key := it.FieldByName("key").Uint()
		size := it.FieldByName("size").Uint()
		bmf := it.FieldByName("bm")
		bm := *(**roaring.Bitmap)(unsafe.Pointer(bmf.UnsafeAddr()))
		fmt.Fprintf(&b, "%d/%d/%d,", key, size, bm.GetSizeInBytes())
	}
	fmt.Fprintf(&b, "cur=%d", cs.Uint())
	ef := v.FieldByName("entries")
	if ef.IsValid() {
		fmt.Fprintf(&b, ",n=%d", ef.Len())
	}
	// every other field the cache may have (added later: memo of the last lookup, flags, ...), generically; list
	// elements and map values are pointers that differ between replays, so only scalar-valued content survives
	b.WriteString("|" + lruExtra(c))
	return b.String()
}

// lruExtra dumps all fields except the three known containers, with pointers replaced by what they point to.
func lruExtra(c *updog.LRUCache) string {
	v := reflect.ValueOf(c).Elem()
	var b strings.Builder
	for i := 0; i < v.NumField(); i++ {
		n := v.Type().Field(i).Name
		switch n {
		case "entries", "lruList", "metrics", "mtx":
			continue
		}
		f := v.Field(i)
		b.WriteString(n + "=")
		if f.Kind() == reflect.Ptr && !f.IsNil() && f.Type().String() == "*list.Element" {
			// a remembered list element: identify it by the key of its item
			e := (*list.Element)(f.UnsafePointer())
			if e != nil && e.Value != nil {
				b.WriteString("elem(" + rt.DeepDump(e.Value, 2) + ")")
			}
		} else {
			b.WriteString(rt.DeepDump(reflect.NewAt(f.Type(), unsafe.Pointer(f.UnsafeAddr())).Elem().Interface(), 2))
		}
		b.WriteString(";")
	}
	return b.String()
}

func lruAlphabet() []lruOp {
	var ops []lruOp
	for k := uint64(1); k <= 3; k++ {
		ops = append(ops, lruOp{Get: true, Key: k})
	}
	for c := 0; c < 4; c++ {
		for k := uint64(1); k <= 3; k++ {
			ops = append(ops, lruOp{Key: k, Class: c})
		}
	}
	return ops
}

func lruCapacities() []uint64 {
	e, s, m, l := lruSizes[0], lruSizes[1], lruSizes[2], lruSizes[3]
	caps := []uint64{0, 1, e + 71, e + 72, s, s + 71, s + 72, s + 73, s + lruSlack, 2*s + 144, 2 * (s + lruSlack), 200,
		s + m + 2*lruSlack, m + 72, 2*m + 2*lruSlack, l + lruSlack, l + s + 2*lruSlack, l + m + s + 3*lruSlack, 3 * (l + lruSlack), 1 << 30, 1<<32 + 5, 1<<63 - 1, 1 << 63, ^uint64(0)}
	sort.Slice(caps, func(i, j int) bool { return caps[i] < caps[j] })
	var out []uint64
	for i, c := range caps {
		if i == 0 || c != caps[i-1] {
			out = append(out, c)
		}
	}
	return out
}

type c07Args struct {
	Cap      uint64 `json:"cap"`
	Metrics  bool   `json:"metrics"`
	MaxDepth int    `json:"max_depth"`
	Unmerged bool   `json:"unmerged,omitempty"` // every sequence to depth 6 over Get(k), Put(k,small): no state merging
}

func c07Worker(ctx *rt.Ctx, job *rt.Job) []*rt.Violation {
	flk.Sequential(true) // single goroutine: a lock of updog or bbolt that cannot be taken now never will be (reported as a hang)
	var a c07Args
	job.Decode(&a)
	if a.Unmerged {
		// whatever an implementation remembers besides the list, the map and the byte counter (a memo of the last hit, a
		// buffered queue of hits, a filter) cannot hide behind an equal state key here
		var alpha []lruOp
		for k := uint64(1); k <= 3; k++ {
			alpha = append(alpha, lruOp{Get: true, Key: k}, lruOp{Key: k, Class: 1})
		}
		var vs []*rt.Violation
		var rec func(ops []lruOp) bool
		rec = func(ops []lruOp) bool {
			if len(ops) > 0 {
				c := lruCase{Cap: a.Cap, Metrics: a.Metrics, Ops: ops}
				viol, _ := lruCheckLast(c)
				ctx.Cov.Add("unmerged_sequences", 1)
				ctx.Cov.Add("traces_validated_against_impl", 7)
				if viol != "" {
					vs = append(vs, rt.NewViolation("C07", "lru", c.sig(), c, "%s", viol))
					return false
				}
			}
			if len(ops) == 6 {
				return true
			}
			for _, op := range alpha {
				if !rec(append(append([]lruOp{}, ops...), op)) {
					return false
				}
			}
			return true
		}
		rec(nil)
		return vs
	}
	alpha := lruAlphabet()
	type node struct{ ops []lruOp }
	seen := map[string]bool{}
	// initial state
	w := newLRUWorld(a.Cap, a.Metrics)
	bindOK := lruDump(w.cache) != ""
	seen[lruDump(w.cache)+"|"] = true
	frontier := []node{{}}
	ctx.Cov.Add("states", 1)
	if !bindOK {
		ctx.Cov.Note("state_key", "private fields of LRUCache could not be bound: states are histories (no merging)")
	}
	depth := 0
	for len(frontier) > 0 {
		depth++
		if a.MaxDepth > 0 && depth > a.MaxDepth {
			ctx.Cov.Cap(fmt.Sprintf("depth cap %d at capacity %d", a.MaxDepth, a.Cap))
			break
		}
		if !bindOK && depth > 4 {
			ctx.Cov.Cap("depth 4 (unmerged histories)")
			break
		}
		var next []node
		for _, nd := range frontier {
			for _, op := range alpha {
				ops := append(append([]lruOp{}, nd.ops...), op)
				c := lruCase{Cap: a.Cap, Metrics: a.Metrics, Ops: ops}
				viol, key := lruCheckLast(c)
				ctx.Cov.Add("transitions", 1)
				ctx.Cov.Add("traces_validated_against_impl", 7) // 1 checked replay + 6 residency probes on the real cache
				if viol != "" {
					return []*rt.Violation{rt.NewViolation("C07", "lru", c.sig(), c, "%s", viol)}
				}
				if !bindOK {
					key = c.sig()
				}
				if !seen[key] {
					seen[key] = true
					ctx.Cov.Add("states", 1)
					next = append(next, node{ops})
					if len(ops) >= 3 {
						ctx.Cov.Sample(2, map[string]any{"capacity": a.Cap, "history": c.sig(), "state": key})
					}
				}
			}
		}
		frontier = next
		ctx.Cov.Max("max_depth", int64(depth))
		if ctx.Expired() {
			ctx.Cov.Cap(fmt.Sprintf("deadline at depth %d, capacity %d", depth, a.Cap))
			break
		}
	}
	return nil
}

func c07Run(ctx *rt.Ctx) []*rt.Violation {
	var jobs []rt.Job
	for _, cp := range lruCapacities() {
		for _, m := range []bool{true, false} {
			if !m && cp != 200 && cp != 0 && cp != 1<<30 {
				continue
			}
			args, _ := json.Marshal(c07Args{Cap: cp, Metrics: m})
			jobs = append(jobs, rt.Job{Name: fmt.Sprintf("cap%d", cp), Args: args})
		}
	}
	s := lruSizes[1]
	for _, cp := range []uint64{s + 72, 2*s + 144, 200, 3*s + 216, 3*s + 300, 1 << 30} {
		args, _ := json.Marshal(c07Args{Cap: cp, Metrics: true, Unmerged: true})
		jobs = append(jobs, rt.Job{Name: fmt.Sprintf("unmerged-cap%d", cp), Args: args})
	}
	outs := rt.RunJobs(ctx, jobs, rt.SpawnOpt{})
	vs := rt.Collect(ctx, outs, nil)
	ctx.Cov.Note("unmerged", "every sequence of up to 6 operations over Get(k), Put(k,small) for the three keys, at 6 capacities (1, 2, 2+, 3, 3+ entries, ample), without state merging")
	ctx.Cov.Note("capacities", lruCapacities())
	ctx.Cov.Note("size_classes_bytes", lruSizes)
	ctx.Cov.Note("alphabet", "Get(k), Put(k,class) for the keys 1, 2 and 1+2^32 (called 1..3), class in empty/small/medium/large (15 operations)")
	ctx.Cov.Note("rule", "BFS to fixpoint per capacity over histories of the real LRUCache; state = dump of real internal state + model state; relations R1-R6 on every transition; residency by black-box Get probes on replayed copies")
	ctx.Assumef("the future behaviour of the cache depends only on the recency-ordered (key, accounted size, bitmap size) list and the byte counter, which is what states are merged on")
	ctx.Assumef("'fits'/'comfortably' are read generously as size+%d bytes per entry (real overhead 64): between that and the hard byte bound either behaviour is accepted", lruSlack)
	return vs
}

func c07Replay(ctx *rt.Ctx, v *rt.Violation) *rt.Violation {
	var c lruCase
	if err := json.Unmarshal(v.Case, &c); err != nil {
		rt.Harnessf("case: %v", err)
	}
	for n := 1; n <= len(c.Ops); n++ {
		cc := lruCase{Cap: c.Cap, Metrics: c.Metrics, Ops: c.Ops[:n]}
		if viol, _ := lruCheckLast(cc); viol != "" {
			return rt.NewViolation("C07", "lru", cc.sig(), cc, "%s", viol)
		}
	}
	return nil
}

func init() {
	register(&Property{ID: "C07", Level: "model_checking", Run: c07Run, Worker: c07Worker, Replay: c07Replay})
}
