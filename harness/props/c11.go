package props

import (
	"database/sql"
	"encoding/json"
	"fmt"
	"strings"

	_ "github.com/akrennmair/updog/driver"
	"github.com/akrennmair/updog/internal/queryparser"
	updogv1 "github.com/akrennmair/updog/proto/updog/v1"
	"github.com/akrennmair/updog/zzverif/flk"
	"github.com/akrennmair/updog/zzverif/ix"
	"github.com/akrennmair/updog/zzverif/model"
	"github.com/akrennmair/updog/zzverif/rt"
	"google.golang.org/protobuf/proto"
)

// C11 — placeholder binding is exact, prepared statements are reusable: enumeration of query texts x
// argument lists x execution sequences, directly on ReplacePlaceholders and through database/sql.

var c11Values = []string{"1", "2", "q\"\n", "é", "7", "12", "", "caf\xe9"}

func c11Rows() []model.Row {
	var rows []model.Row
	for i, a := range c11Values {
		for j, b := range c11Values {
			if (i+j)%4 == 3 {
				continue
			}
			rows = append(rows, model.Row{"a": a, "b": b, "g": fmt.Sprint((i + j) % 3)})
		}
	}
	return append(rows, model.Row{"g": "9"})
}

func c11Leaves() []*model.Expr {
	return []*model.Expr{model.Eq("a", "1"), model.Eq("a", "$1"), model.Eq("b", "$2"), model.Eq("a", "$3"), model.Eq("b", "$1")}
}

// maxPlaceholder of a model tree (leaf value "$n")
func maxPlaceholder(e *model.Expr) int {
	if e.Op == "eq" {
		var n int
		if strings.HasPrefix(e.Val, "$") {
			fmt.Sscanf(e.Val, "$%d", &n)
		}
		return n
	}
	m := 0
	for _, k := range e.Kids {
		if x := maxPlaceholder(k); x > m {
			m = x
		}
	}
	return m
}

// bind is the reference substitution.
func bind(e *model.Expr, args []string) *model.Expr {
	if e.Op == "eq" {
		var n int
		if strings.HasPrefix(e.Val, "$") {
			fmt.Sscanf(e.Val, "$%d", &n)
			return model.Eq(e.Col, args[n-1])
		}
		return e
	}
	out := &model.Expr{Op: e.Op}
	for _, k := range e.Kids {
		out.Kids = append(out.Kids, bind(k, args))
	}
	return out
}

type c11Case struct {
	Kind    string      `json:"kind"` // replace | query | prepared
	Tree    *model.Expr `json:"tree"`
	GroupBy []string    `json:"group_by,omitempty"`
	Args    [][]any     `json:"args"` // one list per execution
	Raw     string      `json:"raw,omitempty"`
}

func (c c11Case) sig() string {
	if c.Raw != "" {
		return fmt.Sprintf("raw text=%q args=%v", c.Raw, c.Args)
	}
	return fmt.Sprintf("%s text=%q args=%v", c.Kind, c.text(), c.Args)
}

func (c c11Case) text() string {
	return queryparser.QueryToString(&updogv1.Query{Expr: toProto(c.Tree), GroupBy: c.GroupBy})
}

type c11World struct {
	literal map[string]string
	db      *sql.DB
	data    *model.Data
	path    string
}

func newC11World(ctx *rt.Ctx) *c11World {
	rows := c11Rows()
	p, _, err := ix.Build(ctx.Scratch, rows, ix.MemFile)
	if err != nil {
		rt.Harnessf("build: %v", err)
	}
	db, err := sql.Open("updog", "file:"+p)
	if err != nil {
		rt.Harnessf("sql.Open: %v", err)
	}
	return &c11World{db: db, data: model.FromRows(rows), path: p}
}

func (w *c11World) close() { w.db.Close(); removeFile(w.path) }

func strArgs(a []any) []string {
	out := make([]string, len(a))
	for i, x := range a {
		switch v := x.(type) {
		case float64: // integers decoded from JSON
			out[i] = fmt.Sprint(int64(v))
		default:
			out[i] = fmt.Sprint(x)
		}
	}
	return out
}

func sqlArgs(a []any) []any {
	out := make([]any, len(a))
	for i, x := range a {
		if f, ok := x.(float64); ok {
			out[i] = int64(f)
		} else {
			out[i] = x
		}
	}
	return out
}

// expectedRows renders what the one-shot query with literal values returns through the same driver (the property
// compares with that; whether those rows are right is C12's business).
func (w *c11World) expectedRows(e *model.Expr, gb []string) string {
	txt := queryparser.QueryToString(&updogv1.Query{Expr: toProto(e), GroupBy: gb})
	if r, ok := w.literal[txt]; ok {
		return r
	}
	rows, err := w.db.Query(txt)
	r := "error"
	if err == nil {
		if r, err = scanAll(rows); err != nil {
			r = "error"
		}
	}
	if w.literal == nil {
		w.literal = map[string]string{}
	}
	w.literal[txt] = r
	return r
}

// modelRows renders what the literal query returns according to the model (not used by the oracle).
func (w *c11World) modelRows(e *model.Expr, gb []string) string {
	sel, err := w.data.Eval(e)
	if err != nil {
		return "error"
	}
	if len(gb) == 0 {
		return fmt.Sprintf("[%d]", sel.Count())
	}
	g, err := w.data.GroupBy(sel, gb)
	if err != nil {
		return "error"
	}
	var s []string
	for _, x := range g {
		var f []string
		for _, fl := range x.Fields {
			f = append(f, fl.Value)
		}
		s = append(s, fmt.Sprintf("[%s %d]", strings.Join(f, " "), x.Count))
	}
	return strings.Join(s, "")
}

func scanAll(rows *sql.Rows) (string, error) {
	defer rows.Close()
	cols, err := rows.Columns()
	if err != nil {
		return "", err
	}
	// the caller owns the slice it got: it renames the headers in place once it has read the result (whatever a
	// statement or connection keeps of its column list must not be this array)
	defer func() {
		for i := range cols {
			cols[i] = "\x00SCRIBBLED " + strings.ToUpper(cols[i])
		}
	}()
	var out []string
	for rows.Next() {
		vals := make([]any, len(cols))
		ptrs := make([]any, len(cols))
		for i := range vals {
			ptrs[i] = &vals[i]
		}
		if err := rows.Scan(ptrs...); err != nil {
			return "", err
		}
		var f []string
		for _, v := range vals {
			f = append(f, fmt.Sprint(v))
		}
		out = append(out, "["+strings.Join(f, " ")+"]")
	}
	return strings.Join(out, ""), rows.Err()
}

func c11Check(w *c11World, c c11Case) (viol string) {
	defer func() {
		if r := recover(); r != nil {
			viol = fmt.Sprintf("panic: %v", r)
		}
	}()
	need := maxPlaceholder(c.Tree)
	switch c.Kind {
	case "replace":
		q := &updogv1.Query{Expr: toProto(c.Tree), GroupBy: c.GroupBy}
		pristine := proto.Clone(q).(*updogv1.Query)
		for n, a := range c.Args {
			args := strArgs(a)
			got := queryparser.ReplacePlaceholders(q, args)
			want := &updogv1.Query{Expr: toProto(bind(c.Tree, args)), GroupBy: c.GroupBy}
			if protoQueryString(got) != protoQueryString(want) {
				return fmt.Sprintf("binding #%d %v produced %s, expected %s", n+1, args, protoQueryString(got), protoQueryString(want))
			}
			if !proto.Equal(q, pristine) {
				return fmt.Sprintf("binding #%d modified the parsed query itself: now %s", n+1, protoQueryString(q))
			}
			if got == q {
				return "binding returned the template itself"
			}
		}
	case "query":
		for n, a := range c.Args {
			rows, err := w.db.Query(c.text(), sqlArgs(a)...)
			if len(a) < need {
				if err == nil {
					rows.Close()
					return fmt.Sprintf("execution #%d with %d argument(s) for a query that needs %d did not fail", n+1, len(a), need)
				}
				continue
			}
			if err != nil {
				return fmt.Sprintf("execution #%d with args %v failed: %v", n+1, a, err)
			}
			got, err := scanAll(rows)
			if err != nil {
				return fmt.Sprintf("execution #%d: %v", n+1, err)
			}
			if want := w.expectedRows(bind(c.Tree, strArgs(a)), c.GroupBy); got != want {
				return fmt.Sprintf("execution #%d with args %v returned %s, the literal query returns %s", n+1, a, got, want)
			}
		}
	case "prepared":
		st, err := w.db.Prepare(c.text())
		if err != nil {
			return fmt.Sprintf("Prepare failed: %v", err)
		}
		defer st.Close()
		for n, a := range c.Args {
			rows, err := st.Query(sqlArgs(a)...)
			if len(a) != need {
				if err == nil {
					rows.Close()
					return fmt.Sprintf("execution #%d of the prepared statement with %d argument(s) instead of %d did not fail", n+1, len(a), need)
				}
				continue
			}
			if err != nil {
				return fmt.Sprintf("execution #%d of the prepared statement with args %v failed: %v", n+1, a, err)
			}
			got, err := scanAll(rows)
			if err != nil {
				return fmt.Sprintf("execution #%d: %v", n+1, err)
			}
			if want := w.expectedRows(bind(c.Tree, strArgs(a)), c.GroupBy); got != want {
				return fmt.Sprintf("execution #%d of the prepared statement with args %v returned %s, the literal query returns %s", n+1, a, got, want)
			}
		}
	}
	return ""
}

func anyLists(vals []any, minLen, maxLen int) [][]any {
	var out [][]any
	for l := minLen; l <= maxLen; l++ {
		idx := make([]int, l)
		for {
			lst := make([]any, l)
			for i, j := range idx {
				lst[i] = vals[j]
			}
			out = append(out, lst)
			p := l - 1
			for p >= 0 {
				idx[p]++
				if idx[p] < len(vals) {
					break
				}
				idx[p] = 0
				p--
			}
			if p < 0 {
				break
			}
		}
	}
	return out
}

type c11Args struct {
	Mode    string `json:"mode"` // lists | sequences
	Depth   int    `json:"depth"`
	Seq     int    `json:"seq"`
	Collide bool   `json:"collide"`
}

func c11Worker(ctx *rt.Ctx, job *rt.Job) []*rt.Violation {
	flk.Sequential(true) // single goroutine: a lock of updog or bbolt that cannot be taken now never will be (reported as a hang)
	var a c11Args
	job.Decode(&a)
	w := newC11World(ctx)
	defer w.close()
	trees := model.Trees(c11Leaves(), a.Depth, 2)
	vals := []any{"1", "2", "q\"\n", "é", float64(7)}
	var vs []*rt.Violation
	seenKind := map[string]bool{}
	run := func(c c11Case) bool {
		ctx.Cov.Add("evaluations", 1)
		if maxPlaceholder(c.Tree) > 0 {
			ctx.Cov.Add("distinct_nontrivial", 1)
		}
		if v := c11Check(w, c); v != "" {
			k := c.Kind + ":" + strings.SplitN(v, " ", 3)[0]
			if !seenKind[k] {
				seenKind[k] = true
				vs = append(vs, rt.NewViolation("C11", "bind", c.sig(), c, "%s", v))
			}
		}
		return len(vs) < 4
	}
	switch a.Mode {
	case "lists":
		lsts := anyLists(vals, 0, 4)
		for ti, t := range trees {
			if ti%job.NShards != job.Shard {
				continue
			}
			need := maxPlaceholder(t)
			gb := [][]string{nil, {"g"}}[ti%2]
			for _, l := range lsts {
				if len(l) >= need {
					if !run(c11Case{Kind: "replace", Tree: t, GroupBy: gb, Args: [][]any{l, l}}) {
						return vs
					}
				}
				// longer lists than needed only on a sub-space (they are ignored by the direct path, rejected by Prepare)
				if len(l) > need+1 {
					continue
				}
				if !run(c11Case{Kind: "query", Tree: t, GroupBy: gb, Args: [][]any{l}}) || !run(c11Case{Kind: "prepared", Tree: t, GroupBy: gb, Args: [][]any{l}}) {
					return vs
				}
			}
			if ctx.Expired() {
				ctx.Cov.Cap("deadline in lists")
				break
			}
		}
		if job.Shard == 0 {
			ctx.Cov.Sample(1, map[string]any{"mode": "lists", "texts": len(trees), "argument_lists": len(lsts), "example": c11Case{Kind: "query", Tree: trees[len(trees)-1], Args: [][]any{{"1", "é", float64(7)}}}.sig()})
		}
	case "sequences":
		vals3 := []any{"1", "2", "q\"\n"}
		if a.Collide {
			// argument lists whose concatenations coincide ("1"+"2" == "12"+"") and a value that is not valid UTF-8
			vals3 = []any{"1", "12", "2", "", "caf\xe9"}
		}
		for ti, t := range trees {
			if ti%job.NShards != job.Shard {
				continue
			}
			need := maxPlaceholder(t)
			if need == 0 {
				continue
			}
			exact := anyLists(vals3, need, need)
			wrong := [][]any{{}, {"1"}}
			pool := append(append([][]any{}, exact...), wrong...)
			seqLen := a.Seq
			if len(pool) > 40 && seqLen > 2 {
				seqLen = 2 // 3 placeholders over 5 values: 127 lists; sequences of two executions there
			}
			idx := make([]int, seqLen)
			expired := false
			for it := 0; ; it++ {
				if it%256 == 255 && ctx.Expired() {
					expired = true
					break
				}
				seq := make([][]any, seqLen)
				for i, j := range idx {
					seq[i] = pool[j]
				}
				// (group-by lists of 0, 1 and 3 columns: a parsed list of 3 has spare capacity behind it)
				if !run(c11Case{Kind: "prepared", Tree: t, GroupBy: [][]string{nil, {"g", "a", "b"}, {"g"}}[it%3], Args: seq}) {
					return vs
				}
				if !run(c11Case{Kind: "query", Tree: t, GroupBy: []string{"g"}, Args: seq}) {
					return vs
				}
				p := seqLen - 1
				for p >= 0 {
					idx[p]++
					if idx[p] < len(pool) {
						break
					}
					idx[p] = 0
					p--
				}
				if p < 0 {
					break
				}
			}
			if expired || ctx.Expired() {
				ctx.Cov.Cap("deadline in sequences")
				break
			}
		}
		if job.Shard == 0 {
			ctx.Cov.Sample(1, map[string]any{"mode": "sequences", "length": a.Seq, "example": c11Case{Kind: "prepared", Tree: trees[8], Args: [][]any{{"1", "2"}, {}, {"q\"\n", "1"}}}.sig()})
		}
	}
	return vs
}

// c11RawTexts: placeholder spellings the formatter never produces (leading zeros), with 10 arguments.
func c11Raw(w *c11World, ctx *rt.Ctx) *rt.Violation {
	args := []any{"1", "2", "q\"\n", "é", "7", "2", "1", "é", "7", "2"}
	type raw struct {
		text string
		lit  string
		need int
	}
	q := func(i int) string { return `"` + strings.ReplaceAll(fmt.Sprint(args[i-1]), `"`, `""`) + `"` }
	raws := []raw{
		{"a = $01", "a = " + q(1), 1},
		{"a = $010 | b = $08", "a = " + q(10) + " | b = " + q(8), 10},
		{"a = $09 & ^ b = $0010 ; g", "a = " + q(9) + " & ^ b = " + q(10) + " ; g", 10},
		{"a = $007 | a = $10", "a = " + q(7) + " | a = " + q(10), 10},
		{"a = $08", "a = " + q(8), 8},
		{strings.Repeat("^ ( ", 40) + "a = $1 | b = $2" + strings.Repeat(" )", 40), strings.Repeat("^ ( ", 40) + "a = " + q(1) + " | b = " + q(2) + strings.Repeat(" )", 40), 2},
		{strings.Repeat("( ", 35) + "a = $2 & ^ b = $1" + strings.Repeat(" )", 35) + " ; g", strings.Repeat("( ", 35) + "a = " + q(2) + " & ^ b = " + q(1) + strings.Repeat(" )", 35) + " ; g", 2},
		{"a = $4294967297", "!error", 1},
		{"a = $2147483648 | b = $1", "!error", 2},
	}
	for _, r := range raws {
		ctx.Cov.Add("evaluations", 1)
		ctx.Cov.Add("distinct_nontrivial", 1)
		want := func() string {
			if r.lit == "!error" {
				return "!error"
			}
			rows, err := w.db.Query(r.lit)
			if err != nil {
				return "error"
			}
			s, _ := scanAll(rows)
			return s
		}()
		for _, path := range []string{"query", "prepared"} {
			got := func() (out string) {
				defer func() {
					if p := recover(); p != nil {
						out = fmt.Sprintf("panic: %v", p)
					}
				}()
				var rows *sql.Rows
				var err error
				if path == "query" {
					rows, err = w.db.Query(r.text, args[:r.need]...)
				} else {
					st, perr := w.db.Prepare(r.text)
					if perr != nil {
						return "error: " + perr.Error()
					}
					defer st.Close()
					rows, err = st.Query(args[:r.need]...)
				}
				if err != nil {
					return "error: " + err.Error()
				}
				s, _ := scanAll(rows)
				return s
			}()
			if want == "!error" && strings.HasPrefix(got, "error") {
				continue
			}
			if got != want {
				c := c11Case{Kind: "raw", Args: [][]any{args}, Raw: r.text}
				return rt.NewViolation("C11", "bind", c.sig(), c, "%s path: %q with its arguments returned %s; the literal query %q returns %s", path, r.text, got, r.lit, want)
			}
		}
	}
	return nil
}

func c11Run(ctx *rt.Ctx) []*rt.Violation {
	var jobs []rt.Job
	add := func(a c11Args, shards int) {
		b, _ := json.Marshal(a)
		for s := 0; s < shards; s++ {
			jobs = append(jobs, rt.Job{Name: a.Mode, Shard: s, NShards: shards, Args: b})
		}
	}
	if ctx.Thorough() {
		add(c11Args{Mode: "lists", Depth: 2}, 32)
		add(c11Args{Mode: "sequences", Depth: 1, Seq: 3}, 16)
		add(c11Args{Mode: "sequences", Depth: 1, Seq: 3, Collide: true}, 16)
	} else {
		add(c11Args{Mode: "lists", Depth: 1}, 8)
		add(c11Args{Mode: "sequences", Depth: 1, Seq: 2}, 8)
		add(c11Args{Mode: "sequences", Depth: 1, Seq: 2, Collide: true}, 8)
	}
	outs := rt.RunJobs(ctx, jobs, rt.SpawnOpt{})
	vs := rt.Collect(ctx, outs, nil)
	{
		w := newC11World(ctx)
		if v := c11Raw(w, ctx); v != nil {
			vs = append(vs, v)
		}
		if v := c11Grpc(w, ctx); v != nil {
			vs = append(vs, v)
		}
		w.close()
	}
	ctx.Cov.Note("rule", "texts = all trees (depth 1 quick / 2 thorough, arity<=2) over leaves {a=\"1\", a=$1, b=$2, a=$3, b=$1} (repeated, out of order, gaps), with and without a group-by column; argument lists = all lists of length 0..4 over {\"1\",\"2\",quote+newline,é,int 7}; ReplacePlaceholders compared with a reference substitution and its input with a pristine clone; through database/sql every text x list on the direct Query path and the Prepare path, and every sequence (length 2 quick / 3 thorough) of executions of one prepared statement / one handle over all exact-length lists plus two too-short ones: rows must equal the literal query's rows (model), too few arguments must be an error; plus texts with a placeholder below 40 nested NOT / AND levels; plus 4 raw texts with leading-zero placeholder numbers ($01, $08, $010, $0010) bound to 10 arguments on both paths; plus, on a grpc:// handle served by an in-process query service over the library, every sequence of <=3 executions of one prepared statement (3 texts x 3 argument lists) in which each execution is either answered or failed by the service (an environment answer): answered executions must equal the file handle's rows, failed ones must be errors")
	return vs
}

func c11Replay(ctx *rt.Ctx, v *rt.Violation) *rt.Violation {
	var c c11Case
	if err := json.Unmarshal(v.Case, &c); err != nil {
		rt.Harnessf("case: %v", err)
	}
	w := newC11World(ctx)
	defer w.close()
	if strings.HasPrefix(c.Raw, "grpc:") {
		return c11Grpc(w, ctx)
	}
	if c.Raw != "" {
		return c11Raw(w, ctx)
	}
	if m := c11Check(w, c); m != "" {
		return rt.NewViolation("C11", "bind", c.sig(), c, "%s", m)
	}
	return nil
}

func init() {
	register(&Property{ID: "C11", Level: "exploration", Run: c11Run, Worker: c11Worker, Replay: c11Replay})
}
