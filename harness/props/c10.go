package props

import (
	"encoding/json"
	"fmt"
	"hash/fnv"
	"reflect"
	"strings"

	"github.com/akrennmair/updog/internal/queryparser"
	updogv1 "github.com/akrennmair/updog/proto/updog/v1"
	"github.com/akrennmair/updog/zzverif/model"
	"github.com/akrennmair/updog/zzverif/rt"
)

// C10 — format then parse preserves meaning, formatted text is a fixpoint: exhaustive enumeration of trees,
// value strings and group-by lists.

// toProto converts a model tree to the protobuf tree; a leaf value "$n" is placeholder n.
func toProto(e *model.Expr) *updogv1.Query_Expression {
	switch e.Op {
	case "eq":
		eq := &updogv1.Query_Expression_Equal{Column: e.Col}
		var n int32
		if _, err := fmt.Sscanf(e.Val, "$%d", &n); err == nil && strings.HasPrefix(e.Val, "$") && n > 0 {
			eq.Placeholder = n
		} else {
			eq.Value = e.Val
		}
		return &updogv1.Query_Expression{Value: &updogv1.Query_Expression_Eq{Eq: eq}}
	case "not":
		return &updogv1.Query_Expression{Value: &updogv1.Query_Expression_Not_{Not: &updogv1.Query_Expression_Not{Expr: toProto(e.Kids[0])}}}
	}
	var kids []*updogv1.Query_Expression
	for _, k := range e.Kids {
		kids = append(kids, toProto(k))
	}
	if e.Op == "and" {
		return &updogv1.Query_Expression{Value: &updogv1.Query_Expression_And_{And: &updogv1.Query_Expression_And{Exprs: kids}}}
	}
	return &updogv1.Query_Expression{Value: &updogv1.Query_Expression_Or_{Or: &updogv1.Query_Expression_Or{Exprs: kids}}}
}

// fromProto converts back to the plain tree used for normalisation.
func fromProto(e *updogv1.Query_Expression) *model.PExpr {
	switch v := e.Value.(type) {
	case *updogv1.Query_Expression_Eq:
		return &model.PExpr{Op: "eq", Col: v.Eq.Column, Val: v.Eq.Value, Placeholder: int(v.Eq.Placeholder)}
	case *updogv1.Query_Expression_Not_:
		return &model.PExpr{Op: "not", Kids: []*model.PExpr{fromProto(v.Not.Expr)}}
	case *updogv1.Query_Expression_And_:
		p := &model.PExpr{Op: "and"}
		for _, k := range v.And.Exprs {
			p.Kids = append(p.Kids, fromProto(k))
		}
		return p
	case *updogv1.Query_Expression_Or_:
		p := &model.PExpr{Op: "or"}
		for _, k := range v.Or.Exprs {
			p.Kids = append(p.Kids, fromProto(k))
		}
		return p
	}
	return &model.PExpr{Op: "unset"}
}

// norm: flatten directly nested nodes of the same operator and unwrap single-operand AND/OR, to a fixpoint.
func norm(e *model.PExpr) *model.PExpr {
	if e.Op == "eq" {
		return e
	}
	n := &model.PExpr{Op: e.Op}
	for _, k := range e.Kids {
		nk := norm(k)
		if (e.Op == "and" || e.Op == "or") && nk.Op == e.Op {
			n.Kids = append(n.Kids, nk.Kids...)
		} else {
			n.Kids = append(n.Kids, nk)
		}
	}
	if (n.Op == "and" || n.Op == "or") && len(n.Kids) == 1 {
		return n.Kids[0]
	}
	return n
}

type c10Case struct {
	Tree    *model.Expr `json:"tree"`
	GroupBy []string    `json:"group_by,omitempty"`
}

func (c c10Case) sig() string {
	return fmt.Sprintf("tree=%s groupby=%v", c.Tree, c.GroupBy)
}

func c10Check(c c10Case) (viol string) {
	defer func() {
		if r := recover(); r != nil {
			viol = fmt.Sprintf("panic: %v", r)
		}
	}()
	q := &updogv1.Query{Expr: toProto(c.Tree), GroupBy: c.GroupBy}
	want := norm(fromProto(q.Expr)).String()
	c10Poison(want)
	s0 := queryparser.QueryToString(q)
	p0, err := queryparser.ParseQuery(s0)
	if err != nil {
		return fmt.Sprintf("the formatted text %q is rejected by the parser: %v", s0, err)
	}
	if got := norm(fromProto(p0.Expr)).String(); got != want {
		return fmt.Sprintf("formatted as %q, which parses to %s; the original means %s", s0, got, want)
	}
	if !reflect.DeepEqual(p0.GroupBy, c.GroupBy) && !(len(p0.GroupBy) == 0 && len(c.GroupBy) == 0) {
		return fmt.Sprintf("formatted as %q, whose group-by list parses to %v, expected %v", s0, p0.GroupBy, c.GroupBy)
	}
	s1 := queryparser.QueryToString(p0)
	p1, err := queryparser.ParseQuery(s1)
	if err != nil {
		return fmt.Sprintf("the re-formatted text %q is rejected by the parser: %v", s1, err)
	}
	if s2 := queryparser.QueryToString(p1); s2 != s1 {
		return fmt.Sprintf("formatting is not stable: %q re-parses and formats to %q", s1, s2)
	}
	return ""
}

// c10Poison: what the formatter and the parser were asked to do BEFORE must not matter. Ahead of every case one tree
// outside the property's domain (a node without value, a nil operand, an operator without operands - not at the root, so
// that some text has been produced already) is formatted and one rejected text is parsed; which ones is a function of
// the case, so that a replay does the same.
var c10BadTrees = func() []*updogv1.Query {
	eq := func(c, v string) *updogv1.Query_Expression {
		return &updogv1.Query_Expression{Value: &updogv1.Query_Expression_Eq{Eq: &updogv1.Query_Expression_Equal{Column: c, Value: v}}}
	}
	and := func(es ...*updogv1.Query_Expression) *updogv1.Query_Expression {
		return &updogv1.Query_Expression{Value: &updogv1.Query_Expression_And_{And: &updogv1.Query_Expression_And{Exprs: es}}}
	}
	or := func(es ...*updogv1.Query_Expression) *updogv1.Query_Expression {
		return &updogv1.Query_Expression{Value: &updogv1.Query_Expression_Or_{Or: &updogv1.Query_Expression_Or{Exprs: es}}}
	}
	not := func(e *updogv1.Query_Expression) *updogv1.Query_Expression {
		return &updogv1.Query_Expression{Value: &updogv1.Query_Expression_Not_{Not: &updogv1.Query_Expression_Not{Expr: e}}}
	}
	return []*updogv1.Query{
		{Expr: and(eq("p", "1"), &updogv1.Query_Expression{})},
		{Expr: or(eq("p", "1"), nil), GroupBy: []string{"p"}},
		{Expr: and(eq("p", "1"), not(nil))},
		{Expr: or(eq("p", "1"), and())},
		{Expr: not(&updogv1.Query_Expression{}), GroupBy: []string{"p", "q"}},
		{Expr: nil, GroupBy: []string{"p"}},
		{Expr: and(eq("p", "1"), or(eq("q", "2"), not(&updogv1.Query_Expression{})))},
	}
}()

var c10BadTexts = []string{`p = "1" ^ q = "2"`, `p = "1" ( q = "2" )`, `p = "1" q`, `p = "1" ; c ^`, `p = `, `( p = "1"`, `p = "x`, `=`, `p = "1" ; c , "d"`, `p = $0`, `p = "1" &`}

func c10Poison(key string) {
	h := fnv.New32a()
	h.Write([]byte(key))
	n := int(h.Sum32())
	func() {
		defer func() { recover() }()
		queryparser.QueryToString(c10BadTrees[n%len(c10BadTrees)])
	}()
	func() {
		defer func() { recover() }()
		queryparser.ParseQuery(c10BadTexts[(n/7)%len(c10BadTexts)])
	}()
}

var c10ValueAlphabet = []string{`"`, "a", "\n", "\r", "é", " ", `\`, "%", "\uFFFD", "\xe9"}

type c10Args struct {
	Space  string `json:"space"` // trees | values | groupby
	Depth  int    `json:"depth"`
	Arity  int    `json:"arity"`
	Len    int    `json:"len"`
	Leaves int    `json:"leaves"` // 0 = all three
}

func c10Worker(ctx *rt.Ctx, job *rt.Job) []*rt.Violation {
	var a c10Args
	job.Decode(&a)
	var vs []*rt.Violation
	check := func(c c10Case, nontrivial bool) bool {
		ctx.Cov.Add("evaluations", 1)
		if nontrivial {
			ctx.Cov.Add("distinct_nontrivial", 1)
		}
		if v := c10Check(c); v != "" {
			vs = append(vs, rt.NewViolation("C10", "roundtrip", c.sig(), c, "%s", v))
			return false
		}
		return true
	}
	leaves := []*model.Expr{model.Eq("a", "x"), model.Eq("b1", "$2"), model.Eq("c", "q\"\n")}
	if a.Leaves > 0 {
		leaves = leaves[:a.Leaves]
	}
	switch a.Space {
	case "trees":
		// enumerate without materialising the top level: operands are trees of depth-1
		sub := model.Trees(leaves, a.Depth-1, a.Arity)
		n := 0
		try := func(t *model.Expr) bool {
			n++
			if (n-1)%job.NShards != job.Shard {
				return true
			}
			if n%8192 == 0 && ctx.Expired() {
				ctx.Cov.Cap(fmt.Sprintf("deadline in tree space depth %d arity %d", a.Depth, a.Arity))
				return false
			}
			return check(c10Case{Tree: t}, t.Ops() >= 2)
		}
		for _, l := range leaves {
			if !try(l) {
				return vs
			}
		}
		for _, k := range sub {
			if !try(model.Not(k)) {
				return vs
			}
		}
		for _, op := range []string{"and", "or"} {
			idx := make([]int, 0, a.Arity)
			var rec func() bool
			rec = func() bool {
				if len(idx) > 0 {
					kids := make([]*model.Expr, len(idx))
					for i, j := range idx {
						kids[i] = sub[j]
					}
					if !try(&model.Expr{Op: op, Kids: kids}) {
						return false
					}
				}
				if len(idx) == a.Arity {
					return true
				}
				for j := range sub {
					idx = append(idx, j)
					ok := rec()
					idx = idx[:len(idx)-1]
					if !ok {
						return false
					}
				}
				return true
			}
			if !rec() {
				return vs
			}
		}
		if job.Shard == 0 {
			ctx.Cov.Sample(1, map[string]any{"space": "trees", "depth": a.Depth, "arity": a.Arity, "count": n, "example": model.Or(model.And(leaves[0]), model.Not(model.Or(leaves[1], leaves[len(leaves)-1]))).String()})
		}
	case "values":
		cnt := 0
		for l := 0; l <= a.Len; l++ {
			seqs(c10ValueAlphabet, l, "", 0, 1, func(v string) bool {
				cnt++
				if cnt%job.NShards != job.Shard {
					return true
				}
				if !check(c10Case{Tree: model.Eq("a", v)}, true) {
					return false
				}
				return check(c10Case{Tree: model.And(model.Eq("a", v), model.Not(model.Eq("b", v+"x")))}, true) &&
					check(c10Case{Tree: model.And(model.Eq("a", "x"+v), model.Not(model.Eq("b", v))), GroupBy: []string{"a"}}, true)
			})
			if len(vs) > 0 {
				return vs
			}
		}
		if job.Shard == 0 {
			ctx.Cov.Sample(1, map[string]any{"space": "values", "max_len": a.Len, "alphabet": c10ValueAlphabet})
		}
	case "wide":
		// flat operators with many operands (negated and plain) and deep chains: width is not depth, and neither has a
		// documented limit below these sizes
		for _, w := range []int{65, 201, 300, 1001, 1500} {
			var nots, plain []*model.Expr
			for i := 0; i < w; i++ {
				nots = append(nots, model.Not(model.Eq("a", fmt.Sprintf("v%d", i))))
				plain = append(plain, model.Eq("b", fmt.Sprintf("v%d", i)))
			}
			for _, t := range []*model.Expr{model.Or(nots...), model.And(nots...), model.Or(plain...), model.And(model.Or(plain...), model.Or(nots...))} {
				if !check(c10Case{Tree: t}, true) {
					return vs
				}
			}
		}
		for _, d := range []int{65, 201, 300} {
			t := model.Eq("a", "x")
			u := model.Eq("a", "x")
			for i := 0; i < d; i++ {
				t = model.Not(t)
				if i%2 == 0 {
					u = model.And(u, model.Eq("b", "y"))
				} else {
					u = model.Or(model.Eq("b", "y"), u)
				}
			}
			if !check(c10Case{Tree: t}, true) || !check(c10Case{Tree: u}, true) {
				return vs
			}
		}
		// long values around 2^15 and 2^16 bytes (plain, all quotes, all newlines)
		for _, n := range []int{32767, 32768, 65533, 65534, 65535, 65536, 65537, 70000, 131072} {
			for _, unit := range []string{"x", `"`, "\n", "é"} {
				v := strings.Repeat(unit, n/len(unit))
				if !check(c10Case{Tree: model.And(model.Eq("a", v), model.Eq("b", "y"))}, true) {
					return vs
				}
			}
		}
		// column names that are prefixes of each other with values that make name+value coincide, formatted one after the
		// other in one process, in both orders (a formatter may remember what it printed before)
		pl := []*model.Expr{model.Eq("ab", "c"), model.Eq("a", "bc"), model.Eq("c1", "0"), model.Eq("c10", ""), model.Eq("abc", ""), model.Eq("c", "10")}
		for round := 0; round < 2; round++ {
			for i := range pl {
				l := pl[i]
				if round == 1 {
					l = pl[len(pl)-1-i]
				}
				if !check(c10Case{Tree: l}, true) || !check(c10Case{Tree: model.Not(l)}, true) {
					return vs
				}
			}
		}
		for _, l1 := range pl {
			for _, l2 := range pl {
				if !check(c10Case{Tree: model.Or(l1, model.Not(l2))}, true) {
					return vs
				}
			}
		}
		ctx.Cov.Sample(1, map[string]any{"space": "wide", "widths": []int{65, 201, 300, 1001, 1500}, "depths": []int{65, 201, 300}, "value_lengths": []int{32767, 32768, 65533, 65534, 65535, 65536, 65537, 70000, 131072}})
	case "placeholders":
		for _, pnum := range []int{1, 2, 9, 10, 99, 1000, 2147483646, 2147483647} {
			l := model.Eq("a", fmt.Sprintf("$%d", pnum))
			for _, t := range []*model.Expr{l, model.Not(l), model.And(l, model.Eq("b", "x")), model.Or(model.Not(l), l)} {
				if !check(c10Case{Tree: t}, true) || !check(c10Case{Tree: t, GroupBy: []string{"a"}}, true) {
					return vs
				}
			}
		}
		ctx.Cov.Sample(1, map[string]any{"space": "placeholders", "example": "a = $2147483647"})
	case "groupby":
		trees := []*model.Expr{leaves[0], model.Not(model.Or(leaves[0], leaves[1])), model.And(model.Or(leaves[2], leaves[0]), leaves[1])}
		for _, gb := range lists([]string{"a", "b1", "Z_9"}, 0, 3) {
			for _, t := range trees {
				var g []string
				if len(gb) > 0 {
					g = gb
				}
				if !check(c10Case{Tree: t, GroupBy: g}, len(gb) > 0) {
					return vs
				}
			}
		}
		ctx.Cov.Sample(1, map[string]any{"space": "groupby", "example": c10Case{Tree: trees[1], GroupBy: []string{"Z_9", "a", "a"}}.sig()})
	}
	return vs
}

func c10Run(ctx *rt.Ctx) []*rt.Violation {
	var jobs []rt.Job
	add := func(a c10Args, shards int) {
		b, _ := json.Marshal(a)
		for s := 0; s < shards; s++ {
			jobs = append(jobs, rt.Job{Name: a.Space, Shard: s, NShards: shards, Args: b})
		}
	}
	if ctx.Thorough() {
		add(c10Args{Space: "trees", Depth: 3, Arity: 2}, 64)
		add(c10Args{Space: "trees", Depth: 2, Arity: 3}, 16)
		add(c10Args{Space: "values", Len: 5}, 8)
	} else {
		add(c10Args{Space: "trees", Depth: 2, Arity: 3}, 16)
		add(c10Args{Space: "trees", Depth: 3, Arity: 2, Leaves: 2}, 16) // deep nestings (NOT over single-operand nodes over ...) on two leaves
		add(c10Args{Space: "values", Len: 4}, 8)
	}
	add(c10Args{Space: "groupby"}, 1)
	add(c10Args{Space: "wide"}, 1)
	add(c10Args{Space: "placeholders"}, 1)
	outs := rt.RunJobs(ctx, jobs, rt.SpawnOpt{})
	vs := rt.Collect(ctx, outs, nil)
	ctx.Cov.Note("rule", "every tree of the stated depth/arity over 3 leaves (literal, placeholder, value with quote and newline; single-operand and directly nested same-operator nodes included), every value string up to the stated length over {quote, a, newline, carriage return, é, space, backslash, percent, U+FFFD, the lone byte 0xE9 (not valid UTF-8)} in three positions, flat operators with 65..1500 operands and chains nested 65..300 deep, every group-by list of length 0..3 over 3 identifiers on 3 trees, placeholder numbers {1,2,9,10,99,1000,2^31-2,2^31-1} in 4 tree shapes: parse(format(t)) must succeed and be equal to t after flattening/unwrapping, group-by equal, and format(parse(s1)) == s1 for s1 = format(parse(format(t))); non-trivial = trees with >=2 operators, all value and group-by cases")
	ctx.Assumef("column names are valid identifiers and AND/OR nodes have >=1 operand (property precondition)")
	return vs
}

func c10Replay(ctx *rt.Ctx, v *rt.Violation) *rt.Violation {
	var c c10Case
	if err := json.Unmarshal(v.Case, &c); err != nil {
		rt.Harnessf("case: %v", err)
	}
	if m := c10Check(c); m != "" {
		return rt.NewViolation("C10", "roundtrip", c.sig(), c, "%s", m)
	}
	return nil
}

func init() {
	register(&Property{ID: "C10", Level: "exploration", Run: c10Run, Worker: c10Worker, Replay: c10Replay})
}
