// Package props holds one driver per property.
package props

import (
	"github.com/akrennmair/updog/zzverif/rt"
)

// Property is the driver of one property check.
type Property struct {
	ID    string
	Level string // exploration | fault_enumeration | model_checking
	// Run is executed in the parent process; it may fan out to workers with rt.RunJobs.
	Run func(ctx *rt.Ctx) []*rt.Violation
	// Worker handles one job in a worker process.
	Worker func(ctx *rt.Ctx, job *rt.Job) []*rt.Violation
	// Replay re-executes one recorded case without the explorer; it returns the violation if it reproduces.
	Replay func(ctx *rt.Ctx, v *rt.Violation) *rt.Violation
	// NeedsRace / NeedsUpdog tell the check script which binaries to build (informational here).
}

var Registry = map[string]*Property{}

func register(p *Property) { Registry[p.ID] = p }
