package props

import (
	"context"
	"database/sql"
	"encoding/json"
	"fmt"
	"os"
	"reflect"
	"strings"

	"github.com/akrennmair/updog"
	_ "github.com/akrennmair/updog/driver"
	"github.com/akrennmair/updog/internal/queryparser"
	updogv1 "github.com/akrennmair/updog/proto/updog/v1"
	"github.com/akrennmair/updog/zzverif/flk"
	"github.com/akrennmair/updog/zzverif/ix"
	"github.com/akrennmair/updog/zzverif/model"
	"github.com/akrennmair/updog/zzverif/rt"
)

// C12 — the sql driver returns exactly the library's result as rows: enumeration of datasets x query texts x
// DSN option combinations, library Execute on a copy of the same file as the oracle.

func c12Datasets() [][]model.Row {
	ds := [][]model.Row{
		{{"a": "1", "b": "2", "c": "foo"}, {"a": "1", "b": "3", "c": "bar"}, {"a": "5", "b": "2", "c": "foo"}, {"c": "quux"}},
		{{"a": "x"}, {"b": "y"}, {}, {"a": "x", "b": "y"}, {"a": "z", "b": "y"}},
		{{"a": "x", "b": "é", "c": ""}, {"a": "x", "b": "q\"\n", "c": "1"}, {"a": "y", "b": "é", "c": "1"}, {"a": "\"x\"", "b": "\"", "c": "y\""}},
		{{"a": "only"}},
		{{"a": "x", "count": "7", "b": "y"}, {"a": "x", "count": "8"}, {"a": "z", "count": "7", "b": "y"}},
		// values that are prefixes of each other and continue with characters below and above ',' (row order = the library's
		// column-by-column order, not the order of the joined strings)
		{{"a": "new", "b": "y"}, {"a": "new york", "b": "x"}, {"a": "new+", "b": "x"}, {"a": "new", "b": "x,1"}, {"a": "new-", "b": "y"}, {"a": "x", "b": "y"}},
		// values with blanks such that different argument lists print alike when joined by blanks: ("x y","z") / ("x","y z")
		{{"a": "z", "b": "x y"}, {"a": "y z", "b": "x"}, {"a": "x", "b": "z"}, {"a": "x y", "b": "y z"}, {"a": "z", "b": "x"}},
		// decimal texts of unsigned numbers at and above 2^63 and of what they become when squeezed into an int64
		{{"a": "9223372036854775813", "b": "y"}, {"a": "-9223372036854775803", "b": "q"}, {"a": "18446744073709551615"}, {"a": "-1", "b": "y"}, {"a": "9223372036854775808"}, {"a": "-9223372036854775808"}, {"a": "9223372036854775807"}},
	}
	// a sample of the small-scope product: every dataset of exactly 2 rows over the 9 shapes of C01's space A
	for _, d := range spaceADatasets(2) {
		if len(d) == 2 {
			ds = append(ds, d)
		}
	}
	return ds
}

var c12DSNOpts = []string{"", "?lrucache=true&lrucachesize=5000000000", "?preload=true", "?lrucache=true&lrucachesize=0", "?lrucache=true&lrucachesize=10000000", "?preload=true&lrucache=true&lrucachesize=0", "?preload=true&lrucache=true&lrucachesize=10000000"}

type c12Case struct {
	Rows    []model.Row `json:"rows"`
	Opt     int         `json:"opt"`
	Tree    *model.Expr `json:"tree"`
	GroupBy []string    `json:"group_by"`
}

func (c c12Case) text() string {
	return queryparser.QueryToString(&updogv1.Query{Expr: toProto(c.Tree), GroupBy: c.GroupBy})
}

func (c c12Case) sig() string {
	return fmt.Sprintf("rows=%s dsn-options=%q text=%q", rowsSig(c.Rows), c12DSNOpts[c.Opt], c.text())
}

// c12Compare runs one text through the driver and through the library (on lib) and compares everything visible.
func c12Compare(db *sql.DB, lib *updog.Index, c c12Case) (viol string) {
	defer func() {
		if r := recover(); r != nil {
			viol = fmt.Sprintf("panic: %v", r)
		}
	}()
	want, werr := lib.Execute(&updog.Query{Expr: c.Tree.Updog(), GroupBy: append([]string{}, c.GroupBy...)})
	rows, err := db.Query(c.text())
	if werr != nil {
		if err == nil {
			rows.Close()
			return fmt.Sprintf("the library rejects the query (%v) but the driver returned rows", werr)
		}
		return ""
	}
	if err != nil {
		return fmt.Sprintf("the driver failed (%v) but the library answers count=%d groups=%d", err, want.Count, len(want.Groups))
	}
	defer rows.Close()
	cols, err := rows.Columns()
	if err != nil {
		return err.Error()
	}
	wantCols := append(append([]string{}, c.GroupBy...), "count")
	if !reflect.DeepEqual(cols, wantCols) {
		return fmt.Sprintf("columns %v, expected %v", cols, wantCols)
	}
	defer func() { // the caller owns the slice: it renames the headers in place when it is done
		for i := range cols {
			cols[i] = "\x00SCRIBBLED " + strings.ToUpper(cols[i])
		}
	}()
	cts, err := rows.ColumnTypes()
	if err != nil {
		return err.Error()
	}
	for i, ct := range cts {
		wt, st := "TEXT", reflect.TypeOf("")
		if i == len(cts)-1 {
			wt, st = "BIGINT", reflect.TypeOf(int64(0))
		}
		if ct.DatabaseTypeName() != wt || ct.ScanType() != st {
			return fmt.Sprintf("column %d (%s) is typed %s/%v, expected %s/%v", i, ct.Name(), ct.DatabaseTypeName(), ct.ScanType(), wt, st)
		}
	}
	var got []string
	for rows.Next() {
		// typed destinations: strings for the group-by columns, int64 for the count; a NULL makes Scan fail
		strs := make([]string, len(cols)-1)
		var cnt int64
		dest := make([]any, 0, len(cols))
		for i := range strs {
			dest = append(dest, &strs[i])
		}
		dest = append(dest, &cnt)
		if err := rows.Scan(dest...); err != nil {
			return fmt.Sprintf("row %d cannot be scanned into (string..., int64): %v", len(got)+1, err)
		}
		got = append(got, fmt.Sprintf("%q:%d", strs, cnt))
	}
	if err := rows.Err(); err != nil {
		return err.Error()
	}
	var exp []string
	if len(c.GroupBy) == 0 {
		exp = []string{fmt.Sprintf("%q:%d", []string{}, want.Count)}
	} else {
		for _, g := range want.Groups {
			vals := make([]string, len(g.Fields))
			for i, f := range g.Fields {
				vals[i] = f.Value
			}
			exp = append(exp, fmt.Sprintf("%q:%d", vals, g.Count))
		}
	}
	if !reflect.DeepEqual(got, exp) && !(len(got) == 0 && len(exp) == 0) {
		return fmt.Sprintf("rows %v, the library's result gives %v", got, exp)
	}
	return ""
}

func c12Texts(thorough bool) ([]*model.Expr, [][]string) {
	leaves := []*model.Expr{model.Eq("a", "x"), model.Eq("b", "y"), model.Eq("a", "nomatch"), model.Eq("zz", "1"), model.Eq("a", "\"x\"")}
	d := 1
	if thorough {
		d = 2
	}
	trees := model.Trees(leaves, d, 2)
	trees = append(trees, model.Eq("a", "1"), model.Or(model.Eq("a", "1"), model.Eq("b", "2")), model.Not(model.Eq("c", "quux")), model.Or(model.Eq("a", "x"), model.Not(model.Eq("a", "x"))))
	gbs := lists([]string{"a", "b", "c"}, 0, 2)
	gbs = append(gbs, []string{"c", "b", "a"}, []string{"a", "a", "b"}, []string{"zz"}, []string{"a", "zz"}, []string{"count"}, []string{"count", "a"}, []string{"a", "count", "b"})
	return trees, gbs
}

// c12Render reads a result set completely.
func c12Render(rows *sql.Rows) string {
	cols, _ := rows.Columns()
	cols = append([]string{}, cols...) // scanAll scribbles over the driver's slice after reading
	s, err := scanAll(rows)
	if err != nil {
		return "scan error: " + err.Error()
	}
	return fmt.Sprintf("%v %s", cols, s)
}

type c12Multi struct {
	Rows  []model.Row `json:"rows"`
	Opt   int         `json:"opt"`
	Texts []string    `json:"texts"`
	Args  [][]any     `json:"args,omitempty"`
	Order string      `json:"order"`
	Kind  string      `json:"kind"`
}

func (c c12Multi) sig() string {
	return fmt.Sprintf("%s rows=%s dsn-options=%q texts=%q args=%v order=%s", c.Kind, rowsSig(c.Rows), c12DSNOpts[c.Opt], c.Texts, c.Args, c.Order)
}

func c12OverlapTexts() []string {
	return []string{`a = "x" ; a`, `a = "1" ; c`, `^ a = "zz" ; b`, `a = "x" | b = "y"`, `a = "1"`, `^ b = "nope" ; a , b`, `a = "nomatch" ; a`, `a = "x" & b = "y" ; b`}
}

// c12One: each text alone, as the reference for the overlapping executions.
func c12One(db *sql.DB, text string, args ...any) string {
	rows, err := db.Query(text, args...)
	if err != nil {
		return "error"
	}
	return c12Render(rows)
}

// c12Overlap: two result sets of one handle open at the same time (the pool hands the same shared file connection to
// both), read in both orders: each must equal what the query returns alone.
func c12Overlap(w *c12World, rows []model.Row, opt int, cov *rt.Coverage) (string, c12Multi) {
	texts := c12OverlapTexts()
	alone := map[string]string{}
	for _, t := range texts {
		alone[t] = c12One(w.db, t)
	}
	for _, t1 := range texts {
		for _, t2 := range texts {
			for _, order := range []string{"first-then-second", "second-then-first"} {
				c := c12Multi{Kind: "overlap", Rows: rows, Opt: opt, Texts: []string{t1, t2}, Order: order}
				cov.Add("evaluations", 1)
				cov.Add("distinct_nontrivial", 1)
				cov.Add("overlapping_result_sets", 1)
				if m := c12PlayMulti(w, c, alone); m != "" {
					return m, c
				}
			}
		}
	}
	return "", c12Multi{}
}

func c12PlayMulti(w *c12World, c c12Multi, alone map[string]string) (viol string) {
	defer func() {
		if r := recover(); r != nil {
			viol = fmt.Sprintf("panic: %v", r)
		}
	}()
	if alone == nil {
		alone = map[string]string{}
		for _, t := range c.Texts {
			alone[t] = c12One(w.db, t)
		}
	}
	if c.Kind == "overlap" {
		r1, e1 := w.db.Query(c.Texts[0])
		r2, e2 := w.db.Query(c.Texts[1])
		var g1, g2 string
		read := func(r *sql.Rows, e error) string {
			if e != nil {
				return "error"
			}
			return c12Render(r)
		}
		if c.Order == "first-then-second" {
			g1, g2 = read(r1, e1), read(r2, e2)
		} else {
			g2, g1 = read(r2, e2), read(r1, e1)
		}
		if g1 != alone[c.Texts[0]] {
			return fmt.Sprintf("with a second result set open, %q returned %s; alone it returns %s", c.Texts[0], g1, alone[c.Texts[0]])
		}
		if g2 != alone[c.Texts[1]] {
			return fmt.Sprintf("opened while another result set was open, %q returned %s; alone it returns %s", c.Texts[1], g2, alone[c.Texts[1]])
		}
		return ""
	}
	// bound: a prepared statement executed once per argument list, and the direct path, against the literal text
	st, err := w.db.Prepare(c.Texts[0])
	if err != nil {
		return "Prepare failed: " + err.Error()
	}
	defer st.Close()
	for i, a := range c.Args {
		lit := c.Texts[1+i]
		want := c12One(w.db, lit)
		rows, err := st.Query(sqlArgs(a)...)
		got := "error"
		if err == nil {
			got = c12Render(rows)
		}
		if got != want {
			return fmt.Sprintf("execution #%d of the prepared statement with %v returned %s; the literal query %q returns %s", i+1, a, got, lit, want)
		}
		if got2 := c12One(w.db, c.Texts[0], sqlArgs(a)...); got2 != want {
			return fmt.Sprintf("direct query #%d with %v returned %s; the literal query %q returns %s", i+1, a, got2, lit, want)
		}
	}
	return ""
}

// c12Lexical: (1) texts with odd white space at the edges: database/sql must reject exactly what the library's parser
// rejects; (2) arguments that are not strings ([]byte, nil, int64, float64, bool): the prepared and the direct path must
// agree with each other (whatever rendering the driver chose).
func c12Lexical(w *c12World, rows []model.Row, opt int, cov *rt.Coverage) (string, c12Multi) {
	base := `a = "x" ; b`
	for _, ws := range []string{"", " ", "\t", "\n", "\r", "\v", "\f", "\u00a0", "\u0085", "\u2003", "\ufeff", "\x00", " \n\t "} {
		for _, txt := range []string{ws + base, base + ws, ws + base + ws} {
			_, perr := queryparser.ParseQuery(txt)
			got := c12One(w.db, txt)
			cov.Add("evaluations", 1)
			cov.Add("lexical_edge_texts", 1)
			// (on a dataset without the columns of the base text every spelling fails at execution, like the base text)
			if baseGot := c12One(w.db, base); (perr != nil || baseGot == "error") != (got == "error") {
				c := c12Multi{Kind: "lexical", Rows: rows, Opt: opt, Texts: []string{txt}}
				return fmt.Sprintf("text %q: the library's parser says %v, through database/sql it gives %s", txt, perr, got), c
			}
			if perr == nil && got != c12One(w.db, base) {
				c := c12Multi{Kind: "lexical", Rows: rows, Opt: opt, Texts: []string{txt}}
				return fmt.Sprintf("text %q returns %s, %q returns %s", txt, got, base, c12One(w.db, base)), c
			}
		}
	}
	st, err := w.db.Prepare(`a = $1 | b = $2 ; a`)
	if err != nil {
		return "Prepare failed: " + err.Error(), c12Multi{Kind: "lexical", Rows: rows, Opt: opt}
	}
	defer st.Close()
	for _, args := range [][]any{{[]byte("x"), "y"}, {nil, "y"}, {"x", []byte("y")}, {int64(1), "2"}, {1.5, true}, {"", ""}, {[]byte{}, nil}} {
		direct := c12One(w.db, `a = $1 | b = $2 ; a`, args...)
		prepared := "error"
		if r, err := st.Query(args...); err == nil {
			prepared = c12Render(r)
		}
		cov.Add("evaluations", 1)
		if direct != prepared {
			c := c12Multi{Kind: "lexical", Rows: rows, Opt: opt, Texts: []string{`a = $1 | b = $2 ; a`}}
			return fmt.Sprintf("arguments %#v: the prepared statement returns %s, the direct query returns %s", args, prepared, direct), c
		}
	}
	// unsigned arguments at and above 2^63 (database/sql refuses them): an error, or the rows of the decimal text - never
	// the rows of some other value (a wrapped-around negative number)
	for _, u := range []uint64{1<<63 - 1, 1 << 63, 1<<63 + 5, 1<<64 - 1} {
		lit := c12One(w.db, fmt.Sprintf(`a = "%d" | b = "nosuchvalue" ; a`, u))
		for _, arg := range []any{u} { // (plain uint is converted by database/sql itself, without a range check)
			direct := c12One(w.db, `a = $1 | b = $2 ; a`, arg, "nosuchvalue")
			prepared := "error"
			if r, err := st.Query(arg, "nosuchvalue"); err == nil {
				prepared = c12Render(r)
			}
			cov.Add("evaluations", 1)
			for _, got := range []string{direct, prepared} {
				if got != "error" && got != lit {
					c := c12Multi{Kind: "lexical", Rows: rows, Opt: opt, Texts: []string{`a = $1 | b = $2 ; a`}}
					return fmt.Sprintf("argument %T(%d): returned %s; the literal text of that number returns %s", arg, u, got, lit), c
				}
			}
		}
	}
	// one connection (sql.Conn), one prepared statement, executed again while the previous result set is still open
	if cn, err := w.db.Conn(context.Background()); err == nil {
		defer cn.Close()
		if ps, err := cn.PrepareContext(context.Background(), `a = $1 | b = $2 ; a`); err == nil {
			defer ps.Close()
			want1, want2 := c12One(w.db, `a = $1 | b = $2 ; a`, "x", "y"), c12One(w.db, `a = $1 | b = $2 ; a`, "zz", "2")
			r1, e1 := ps.Query("x", "y")
			r2, e2 := ps.Query("zz", "2")
			g1, g2 := "error", "error"
			if e2 == nil {
				g2 = c12Render(r2)
			}
			if e1 == nil {
				g1 = c12Render(r1)
			}
			cov.Add("evaluations", 1)
			if g1 != want1 || g2 != want2 {
				c := c12Multi{Kind: "lexical", Rows: rows, Opt: opt, Texts: []string{`a = $1 | b = $2 ; a`}}
				return fmt.Sprintf("one statement on one connection executed twice with both result sets open: first returned %s (alone %s), second returned %s (alone %s)", g1, want1, g2, want2), c
			}
		}
	}
	return "", c12Multi{}
}

// c12Bound: texts with placeholders (also below NOT and inside nested operators) bound to different arguments in turn.
func c12Bound(w *c12World, rows []model.Row, opt int, cov *rt.Coverage) (string, c12Multi) {
	type tpl struct {
		text string
		lit  func(a []any) string
		n    int
	}
	q := func(v any) string { return `"` + strings.ReplaceAll(fmt.Sprint(v), `"`, `""`) + `"` }
	tpls := []tpl{
		{`a = $1 ; b`, func(a []any) string { return `a = ` + q(a[0]) + ` ; b` }, 1},
		{`^ a = $1 ; b`, func(a []any) string { return `^ a = ` + q(a[0]) + ` ; b` }, 1},
		{`^ ( a = $1 | b = $2 ) ; a`, func(a []any) string { return `^ ( a = ` + q(a[0]) + ` | b = ` + q(a[1]) + ` ) ; a` }, 2},
		{`a = $2 & ^ b = $1`, func(a []any) string { return `a = ` + q(a[1]) + ` & ^ b = ` + q(a[0]) }, 2},
		{`a = "x" | ^ b = "y" ; a , b`, func(a []any) string { return `a = "x" | ^ b = "y" ; a , b` }, 0},
		{`a = $1 | b = $1 | ^ a = $2 ; a`, func(a []any) string { return `a = ` + q(a[0]) + ` | b = ` + q(a[0]) + ` | ^ a = ` + q(a[1]) + ` ; a` }, 2},
	}
	vals := []any{"x", "1", "y", "2", "zz"}
	if len(rows) > 0 && rows[0]["b"] == "x y" {
		vals = []any{"x y", "z", "x", "y z"}
	}
	// wide flat operators (70 and 300 negated operands): the driver's parser must accept what the library evaluates
	for _, w := range []int{70, 300} {
		var k []*model.Expr
		for i := 0; i < w; i++ {
			k = append(k, model.Not(model.Eq("a", fmt.Sprintf("none%d", i))))
		}
		k = append(k, model.Eq("a", "x"))
		for _, e := range []*model.Expr{model.And(k...), model.Or(k...)} {
			txt := queryparser.QueryToString(&updogv1.Query{Expr: toProto(e), GroupBy: []string{"b"}})
			tpls = append(tpls, tpl{txt, func(a []any) string { return txt }, 0})
		}
	}
	for _, t := range tpls {
		lists := anyLists(vals, t.n, t.n)
		for _, l1 := range lists {
			for _, l2 := range lists {
				c := c12Multi{Kind: "bound", Rows: rows, Opt: opt, Texts: []string{t.text, t.lit(l1), t.lit(l2), t.lit(l1)}, Args: [][]any{l1, l2, l1}}
				cov.Add("evaluations", 1)
				cov.Add("distinct_nontrivial", 1)
				cov.Add("bound_argument_sequences", 1)
				if m := c12PlayMulti(w, c, nil); m != "" {
					return m, c
				}
			}
		}
	}
	return "", c12Multi{}
}

type c12World struct {
	db   *sql.DB
	lib  *updog.Index
	p, q string
}

func newC12World(ctx *rt.Ctx, rows []model.Row, opt int) (*c12World, string) {
	p, _, err := ix.Build(ctx.Scratch, rows, ix.MemFile)
	if err != nil {
		rt.Harnessf("build: %v", err)
	}
	b, _ := os.ReadFile(p)
	q := p + ".lib"
	os.WriteFile(q, b, 0o644)
	w := &c12World{p: p, q: q}
	w.lib, err = ix.Open(q, false, nil)
	if err != nil {
		rt.Harnessf("open: %v", err)
	}
	w.db, err = sql.Open("updog", "file:"+p+c12DSNOpts[opt])
	if err != nil {
		return w, fmt.Sprintf("sql.Open failed: %v", err)
	}
	return w, ""
}

func (w *c12World) close() {
	if w.db != nil {
		w.db.Close()
	}
	w.lib.Close()
	os.Remove(w.p)
	os.Remove(w.q)
}

func c12Worker(ctx *rt.Ctx, job *rt.Job) []*rt.Violation {
	flk.Sequential(true) // single goroutine: a lock of updog or bbolt that cannot be taken now never will be (reported as a hang)
	trees, gbs := c12Texts(ctx.Thorough())
	dss := c12Datasets()
	var vs []*rt.Violation
	seen := map[string]bool{}
	n := 0
	for di, rows := range dss {
		for opt := range c12DSNOpts {
			n++
			if (di*7+opt)%job.NShards != job.Shard {
				continue
			}
			if !ctx.Thorough() && len(rows) == 2 && opt != di%len(c12DSNOpts) {
				continue // quick: the 81 two-row datasets rotate through the option strings
			}
			w, msg := newC12World(ctx, rows, opt)
			if msg != "" {
				c := c12Case{Rows: rows, Opt: opt, Tree: trees[0]}
				vs = append(vs, rt.NewViolation("C12", "rows", c.sig()+" open", c, "%s", msg))
				w.close()
				return vs
			}
			for _, t := range trees {
				for _, gb := range gbs {
					c := c12Case{Rows: rows, Opt: opt, Tree: t, GroupBy: gb}
					ctx.Cov.Add("evaluations", 1)
					if len(gb) > 0 {
						ctx.Cov.Add("distinct_nontrivial", 1)
					}
					if m := c12Compare(w.db, w.lib, c); m != "" {
						k := strings.SplitN(m, " ", 2)[0]
						if !seen[k] {
							seen[k] = true
							vs = append(vs, rt.NewViolation("C12", "rows", c.sig(), c, "%s", m))
						}
					}
				}
			}
			if di < 8 {
				if m, c := c12Lexical(w, rows, opt, ctx.Cov); m != "" {
					vs = append(vs, rt.NewViolation("C12", "lexical", c.sig(), c, "%s", m))
				}
				if m, c := c12Overlap(w, rows, opt, ctx.Cov); m != "" {
					vs = append(vs, rt.NewViolation("C12", "overlap", c.sig(), c, "%s", m))
				}
				if m, c := c12Bound(w, rows, opt, ctx.Cov); m != "" {
					vs = append(vs, rt.NewViolation("C12", "bound", c.sig(), c, "%s", m))
				}
			}
			w.close()
			ctx.Cov.Add("dataset_dsn_pairs", 1)
			if n%97 == 1 {
				ctx.Cov.Sample(1, map[string]any{"case": c12Case{Rows: rows, Opt: opt, Tree: trees[len(trees)-2], GroupBy: gbs[7]}.sig()})
			}
			if len(vs) >= 4 || ctx.Expired() {
				return vs
			}
		}
	}
	return vs
}

func c12Run(ctx *rt.Ctx) []*rt.Violation {
	var jobs []rt.Job
	for s := 0; s < 16; s++ {
		jobs = append(jobs, rt.Job{Name: "rows", Shard: s, NShards: 16})
	}
	outs := rt.RunJobs(ctx, jobs, rt.SpawnOpt{})
	vs := rt.Collect(ctx, outs, nil)
	trees, gbs := c12Texts(ctx.Thorough())
	ctx.Cov.Note("rule", fmt.Sprintf("%d datasets (6 fixed incl. prefix-related values, rows lacking columns, odd strings and a column literally named count + all 81 two-row datasets of the 9-shape space) x %d DSN option strings {-, preload} x {-, lrucache size 0, lrucache ample} x %d expressions x %d group-by lists (length 0..3, repeated and unknown columns): db.Query through database/sql compared with Index.Execute on a copy of the same file: Columns, ColumnTypes (TEXT.../BIGINT, string/int64), every row scanned into (string..., int64), order, counts, error iff the library errs; on the 4 fixed datasets additionally every ordered pair of 8 texts as two result sets open at the same time on one handle (read in both orders), and 4 placeholder texts (also below NOT) executed through one prepared statement and the direct path with every ordered pair of argument lists (l1, l2, l1) against the literal text; non-trivial = grouped queries, overlap and bound cases", len(c12Datasets()), len(c12DSNOpts), len(trees), len(gbs)))
	ctx.Assumef("the library result is the oracle (it is itself checked by C01/C02); query texts are produced by the formatter (checked by C10)")
	return vs
}

func c12Replay(ctx *rt.Ctx, v *rt.Violation) *rt.Violation {
	if v.Kind == "overlap" || v.Kind == "bound" || v.Kind == "lexical" {
		var c c12Multi
		if err := json.Unmarshal(v.Case, &c); err != nil {
			rt.Harnessf("case: %v", err)
		}
		w, msg := newC12World(ctx, c.Rows, c.Opt)
		defer w.close()
		if msg != "" {
			return rt.NewViolation("C12", v.Kind, c.sig()+" open", c, "%s", msg)
		}
		if v.Kind == "lexical" {
			if m, c2 := c12Lexical(w, c.Rows, c.Opt, rt.NewCoverage()); m != "" {
				return rt.NewViolation("C12", v.Kind, c2.sig(), c2, "%s", m)
			}
			return nil
		}
		if m := c12PlayMulti(w, c, nil); m != "" {
			return rt.NewViolation("C12", v.Kind, c.sig(), c, "%s", m)
		}
		return nil
	}
	var c c12Case
	if err := json.Unmarshal(v.Case, &c); err != nil {
		rt.Harnessf("case: %v", err)
	}
	w, msg := newC12World(ctx, c.Rows, c.Opt)
	defer w.close()
	if msg != "" {
		return rt.NewViolation("C12", "rows", c.sig()+" open", c, "%s", msg)
	}
	if m := c12Compare(w.db, w.lib, c); m != "" {
		return rt.NewViolation("C12", "rows", c.sig(), c, "%s", m)
	}
	return nil
}

func init() {
	register(&Property{ID: "C12", Level: "exploration", Run: c12Run, Worker: c12Worker, Replay: c12Replay})
}
