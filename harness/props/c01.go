package props

import (
	"encoding/json"
	"fmt"
	"github.com/cespare/xxhash/v2"
	"sort"
	"strconv"
	"strings"

	"github.com/akrennmair/updog"
	"github.com/akrennmair/updog/zzverif/flk"
	"github.com/akrennmair/updog/zzverif/ix"
	"github.com/akrennmair/updog/zzverif/model"
	"github.com/akrennmair/updog/zzverif/rt"
)

// C01 — total count == number of satisfying rows: bounded-exhaustive enumeration of datasets x
// expression trees x writers x open modes against the bit-vector reference model.

// ---- Space A: small scope, full product ------------------------------------------------

var spaceAShapes = func() []model.Row {
	var out []model.Row
	for _, a := range []string{"", "x", "y"} {
		for _, b := range []string{"", "x", "y"} {
			r := model.Row{}
			if a != "" {
				r["a"] = a
			}
			if b != "" {
				r["b"] = b
			}
			out = append(out, r)
		}
	}
	return out
}()

// spaceA2Shapes: prefix-related column names ("a", "ab") with values chosen so that column+value concatenations
// coincide ("a"+"bc" == "ab"+"c", "a"+"b" == "ab"+""): one input per shortcut in the key derivation (the separator).
var spaceA2Shapes = func() []model.Row {
	var out []model.Row
	for _, a := range []string{"-", "b", "bc"} {
		for _, ab := range []string{"-", "", "c"} {
			r := model.Row{}
			if a != "-" {
				r["a"] = a
			}
			if ab != "-" {
				r["ab"] = ab
			}
			out = append(out, r)
		}
	}
	return out
}()

func spaceA2Leaves() []*model.Expr {
	return []*model.Expr{model.Eq("a", "b"), model.Eq("a", "bc"), model.Eq("ab", ""), model.Eq("ab", "c"), model.Eq("a", ""), model.Eq("abc", "")}
}

// spaceADataset returns the k-th dataset in the enumeration of all row sequences of length 0..n.
func spaceADatasets(n int) [][]model.Row { return shapeDatasets(spaceAShapes, n) }

func shapeDatasets(shapes []model.Row, n int) [][]model.Row {
	spaceAShapes := shapes
	var out [][]model.Row
	for l := 0; l <= n; l++ {
		idx := make([]int, l)
		for {
			rows := make([]model.Row, l)
			for i, j := range idx {
				rows[i] = spaceAShapes[j]
			}
			out = append(out, rows)
			p := l - 1
			for p >= 0 {
				idx[p]++
				if idx[p] < len(spaceAShapes) {
					break
				}
				idx[p] = 0
				p--
			}
			if p < 0 {
				break
			}
		}
	}
	return out
}

func spaceALeaves() []*model.Expr {
	return []*model.Expr{model.Eq("a", "x"), model.Eq("a", "y"), model.Eq("b", "x"), model.Eq("a", "z"), model.Eq("a", ""), model.Eq("c", "x")}
}

type c01Case struct {
	Space   string      `json:"space"`
	Rows    []model.Row `json:"rows,omitempty"` // space A / C / nul
	N       int         `json:"n,omitempty"`    // space B
	Trail   int         `json:"trail,omitempty"`
	Writer  int         `json:"writer"`
	Preload bool        `json:"preload"`
	Expr    *model.Expr `json:"expr"`
	// History: expressions evaluated on the same open index before Expr (only when the failure needs them)
	History []*model.Expr `json:"history,omitempty"`
}

func rowsSig(rows []model.Row) string {
	var s []string
	for _, r := range rows {
		var ks []string
		for k := range r {
			ks = append(ks, k)
		}
		sort.Strings(ks)
		var f []string
		for _, k := range ks {
			f = append(f, fmt.Sprintf("%q=%q", k, r[k]))
		}
		s = append(s, "{"+strings.Join(f, ",")+"}")
	}
	return "[" + strings.Join(s, "") + "]"
}

func (c c01Case) sig() string {
	ds := ""
	switch c.Space {
	case "B":
		ds = fmt.Sprintf("N=%d trail=%d", c.N, c.Trail)
	case "W":
		ds = fmt.Sprintf("wide N=%d", wideN)
	case "H":
		ds = "values with partly equal keys"
	default:
		ds = "rows=" + rowsSig(c.Rows)
	}
	h := ""
	if len(c.History) == 1 {
		h = fmt.Sprintf(" after-evaluating=%s", c.History[0])
	} else if len(c.History) > 1 {
		h = fmt.Sprintf(" after-evaluating-%d-expressions-ending-with=%s", len(c.History), c.History[len(c.History)-1])
	}
	return fmt.Sprintf("space=%s %s writer=%s preload=%v%s expr=%s", c.Space, ds, ix.Writer(c.Writer), c.Preload, h, c.Expr)
}

// execCount runs one expression on an open index, converting a panic into an error description.
func execCount(idx *updog.Index, e updog.Expression) (cnt uint64, groups []updog.ResultGroup, err error, panicked string) {
	defer func() {
		if r := recover(); r != nil {
			panicked = fmt.Sprint(r)
		}
	}()
	res, err := idx.Execute(&updog.Query{Expr: e})
	if err != nil {
		if res != nil {
			panicked = "error together with a non-nil result"
		}
		return 0, nil, err, ""
	}
	return res.Count, res.Groups, nil, ""
}

// compareCount returns "" when the implementation's answer equals the model's.
func compareCount(d *model.Data, me *model.Expr, idx *updog.Index, ue updog.Expression) string {
	want, werr := d.Count(me)
	got, groups, gerr, p := execCount(idx, ue)
	switch {
	case p != "":
		return "panic/invalid: " + p
	case werr != nil && gerr == nil:
		return fmt.Sprintf("expected an error (%v) but got count %d", werr, got)
	case werr == nil && gerr != nil:
		return fmt.Sprintf("expected count %d but got error %v", want, gerr)
	case werr == nil && got != want:
		return fmt.Sprintf("count %d, expected %d", got, want)
	case werr == nil && groups != nil:
		return "groups returned without a group-by list"
	}
	return ""
}

var allWriters = []ix.Writer{ix.MemFile, ix.MemDB, ix.Big}

type c01Args struct {
	Space string `json:"space"`
	N     int    `json:"n"`
	Trail int    `json:"trail"`
	Depth int    `json:"depth"`
	Arity int    `json:"arity"`
	Rows  int    `json:"rows"`
}

func c01Worker(ctx *rt.Ctx, job *rt.Job) []*rt.Violation {
	flk.Sequential(true) // single goroutine: a lock of updog or bbolt that cannot be taken now never will be (reported as a hang)
	var a c01Args
	job.Decode(&a)
	switch a.Space {
	case "A", "A2":
		return c01SpaceA(ctx, job, a)
	case "B":
		return c01SpaceB(ctx, job, a)
	case "C":
		return c01SpaceC(ctx, job, a)
	case "W":
		return c01SpaceW(ctx, job, a)
	case "H":
		return c01SpaceH(ctx, job, a)
	}
	rt.Harnessf("bad space")
	return nil
}

// checkDataset builds rows with every writer, opens in both modes and compares every expression with the model.
// It returns at the first violation.
func c01CheckDataset(ctx *rt.Ctx, space string, n, trail int, rowf func(i int) model.Row, rows []model.Row, exprs []*model.Expr, uexprs []updog.Expression, lo, hi int, countNontrivial bool) *rt.Violation {
	d := model.NewData(n)
	for i := 0; i < n; i++ {
		for k, v := range rowf(i) {
			d.Add(i, k, v)
		}
	}
	dir := ctx.Scratch
	for wi, w := range allWriters {
		path, ids, err := ix.BuildFunc(dir, n, rowf, w)
		if err != nil {
			c := c01Case{Space: space, Rows: rows, N: n, Trail: trail, Writer: int(w)}
			return rt.NewViolation("C01", "count", c.sig()+" build", c, "writer %s failed: %v", w, err)
		}
		for i, id := range ids {
			if id != uint32(i) {
				c := c01Case{Space: space, Rows: rows, N: n, Trail: trail, Writer: int(w)}
				return rt.NewViolation("C01", "count", c.sig()+" ids", c, "writer %s: AddRow #%d returned id %d", w, i, id)
			}
		}
		for _, pre := range []bool{false, true} {
			idx, err := ix.Open(path, pre, nil)
			if err != nil {
				c := c01Case{Space: space, Rows: rows, N: n, Trail: trail, Writer: int(w), Preload: pre}
				removeFile(path)
				return rt.NewViolation("C01", "count", c.sig()+" open", c, "cannot open what writer %s wrote: %v", w, err)
			}
			for i := lo; i < hi; i++ {
				ctx.Cov.Add("evaluations", 1)
				if msg := compareCount(d, exprs[i], idx, uexprs[i]); msg != "" {
					idx.Close()
					c := c01Case{Space: space, Rows: rows, N: n, Trail: trail, Writer: int(w), Preload: pre, Expr: exprs[i]}
					// does it fail on a freshly opened index too? otherwise find the earlier expression(s) it depends on
					try := func(hist []*model.Expr) string {
						x, err := ix.Open(path, pre, nil)
						if err != nil {
							return ""
						}
						defer x.Close()
						for _, h := range hist {
							execCount(x, h.Updog())
						}
						return compareCount(d, exprs[i], x, exprs[i].Updog())
					}
					if m := try(nil); m != "" {
						msg = m
					} else {
						found := false
						for j := lo; j < i && !found; j++ {
							if m := try([]*model.Expr{exprs[j]}); m != "" {
								c.History, msg, found = []*model.Expr{exprs[j]}, m+" (correct on a freshly opened index; wrong after the earlier query)", true
							}
						}
						if !found {
							c.History = append([]*model.Expr{}, exprs[lo:i]...)
							msg += " (correct on a freshly opened index; wrong after the preceding queries of the enumeration)"
						}
					}
					removeFile(path)
					return rt.NewViolation("C01", "count", c.sig(), c, "%s", msg)
				}
				if countNontrivial && wi == 0 && !pre && exprs[i].Ops() > 0 {
					if cnt, err := d.Count(exprs[i]); err == nil && cnt > 0 && cnt < uint64(n) {
						ctx.Cov.Add("distinct_nontrivial", 1)
					}
				}
			}
			idx.Close()
		}
		removeFile(path)
	}
	return nil
}

func c01SpaceA(ctx *rt.Ctx, job *rt.Job, a c01Args) []*rt.Violation {
	leaves, shapes := spaceALeaves(), spaceAShapes
	if a.Space == "A2" {
		leaves, shapes = spaceA2Leaves(), spaceA2Shapes
	}
	exprs := model.Trees(leaves, a.Depth, a.Arity)
	// add NOT of every tree of the top depth (quick tier gets NOT over depth-1 trees this way)
	top := len(exprs)
	for i := 0; i < top; i++ {
		if exprs[i].Depth() == a.Depth {
			exprs = append(exprs, model.Not(exprs[i]))
		}
	}
	uex := make([]updog.Expression, len(exprs))
	for i, e := range exprs {
		uex[i] = e.Updog()
	}
	dss := shapeDatasets(shapes, a.Rows)
	for di, rows := range dss {
		if di%job.NShards != job.Shard {
			continue
		}
		if ctx.Expired() {
			ctx.Cov.Cap(fmt.Sprintf("deadline in space A at dataset %d of %d", di, len(dss)))
			break
		}
		rows := rows
		v := c01CheckDataset(ctx, a.Space, len(rows), 0, func(i int) model.Row { return rows[i] }, rows, exprs, uex, 0, len(exprs), true)
		ctx.Cov.Add("datasets", 1)
		if v != nil {
			return []*rt.Violation{v}
		}
		if di == 400+job.Shard {
			ctx.Cov.Sample(1, map[string]any{"space": "A", "rows": rowsSig(rows), "expr": exprs[len(exprs)/2].String()})
		}
	}
	if job.Shard == 0 {
		ctx.Cov.Note("space"+a.Space, fmt.Sprintf("%d datasets (all sequences of 0..%d rows over 9 row shapes) x %d expressions (all trees depth<=%d arity<=%d over 6 leaves + NOT of the deepest) x 3 writers x 2 open modes", len(dss), a.Rows, len(exprs), a.Depth, a.Arity))
	}
	return nil
}

// ---- Space B: boundary family ----------------------------------------------------------

// two long values that differ only in their last byte, and one that is a prefix of them (a key derived from a
// truncated or bounded copy of column+value merges them)
var spaceBStrings = []string{"", "x", "é", "\xff\x00", "a\"b", strings.Repeat("L", 300), strings.Repeat("L", 299) + "M", strings.Repeat("L", 61), strings.Repeat("L", 60) + "M", strings.Repeat("L", 57)}

func spaceBBounds(n int, reduced bool) []int {
	cand := []int{0, 1, 2, 999, 1000, 1001, 4095, 4096, 4097, 65535, 65536, 65537, n - 1, n}
	if reduced {
		cand = []int{0, 1, 4095, 4096, 4097, 65535, 65536, 65537, n - 1, n}
	}
	m := map[int]bool{}
	var out []int
	for _, c := range cand {
		if c >= 0 && c <= n && !m[c] {
			m[c] = true
			out = append(out, c)
		}
	}
	sort.Ints(out)
	return out
}

type spaceB struct {
	n, trail int
	ivLo     []int
	ivHi     []int
	ivName   []string
}

func newSpaceB(n, trail int) *spaceB {
	s := &spaceB{n: n, trail: trail}
	b := spaceBBounds(n, n > 5000)
	for i := 0; i < len(b); i++ {
		for j := i + 1; j < len(b); j++ {
			s.ivLo = append(s.ivLo, b[i])
			s.ivHi = append(s.ivHi, b[j])
			s.ivName = append(s.ivName, fmt.Sprintf("iv%d_%d", b[i], b[j]))
		}
	}
	return s
}

func (s *spaceB) total() int { return s.n + s.trail }

func (s *spaceB) row(i int) model.Row {
	if i >= s.n {
		return model.Row{} // trailing empty rows
	}
	r := model.Row{}
	for k := range s.ivLo {
		if i >= s.ivLo[k] && i < s.ivHi[k] {
			r[s.ivName[k]] = "1"
		}
	}
	r["m1500"] = strconv.Itoa(i % 1500)
	if i%2 == 0 {
		r["par"] = "even"
	} else {
		r["par"] = "odd"
	}
	if i%977 == 0 {
		r["sp"] = "s"
	}
	r["str"] = spaceBStrings[i%len(spaceBStrings)]
	if s.n <= 4097 {
		r["uniq"] = strconv.Itoa(i)
	}
	if i%5 == 3 {
		delete(r, "par") // a column missing on some rows
	}
	return r
}

func (s *spaceB) leaves() []*model.Expr {
	var l []*model.Expr
	for _, n := range s.ivName {
		l = append(l, model.Eq(n, "1"))
	}
	l = append(l, model.Eq("par", "even"), model.Eq("par", "zzz"), model.Eq("sp", "s"), model.Eq("m1500", "7"), model.Eq("m1500", "1499"), model.Eq("nosuch", "1"))
	for _, v := range spaceBStrings {
		l = append(l, model.Eq("str", v))
	}
	if s.n <= 4097 {
		l = append(l, model.Eq("uniq", "0"), model.Eq("uniq", strconv.Itoa(s.n-1)))
	}
	return l
}

func c01SpaceB(ctx *rt.Ctx, job *rt.Job, a c01Args) []*rt.Violation {
	s := newSpaceB(a.N, a.Trail)
	exprs := model.Trees(s.leaves(), 1, 2)
	top := len(exprs)
	for i := 0; i < top; i++ {
		if exprs[i].Depth() == 1 && exprs[i].Op != "not" {
			exprs = append(exprs, model.Not(exprs[i]))
		}
	}
	// every single (column, value) of the large columns, so that every stored bitmap is read in both open modes
	// (a loader that drops one bitmap per batch is only seen by asking for exactly that value)
	for v := 0; v < 1500 && v < a.N; v++ {
		exprs = append(exprs, model.Eq("m1500", strconv.Itoa(v)))
	}
	if a.N <= 4097 {
		for v := 0; v < a.N; v++ {
			exprs = append(exprs, model.Eq("uniq", strconv.Itoa(v)))
		}
	}
	uex := make([]updog.Expression, len(exprs))
	for i, e := range exprs {
		uex[i] = e.Updog()
	}
	v := c01CheckDataset(ctx, "B", s.total(), a.Trail, s.row, nil, exprs, uex, 0, len(exprs), true)
	// the case records N without the trailing rows
	if v != nil {
		var c c01Case
		json.Unmarshal(v.Case, &c)
		c.N = a.N
		v = rt.NewViolation("C01", "count", c.sig(), c, "%s", v.Detail)
		return []*rt.Violation{v}
	}
	ctx.Cov.Add("datasets", 1)
	ctx.Cov.Add("boundary_datasets", 1)
	ctx.Cov.Sample(1, map[string]any{"space": "B", "rows": s.total(), "interval_columns": len(s.ivName), "expressions": len(exprs), "sample_expr": exprs[len(exprs)-1].String()})
	return nil
}

// ---- Space W: wide operators and column names that are not valid UTF-8 ------------------

// wideRow: 1300 rows; a unique column, a 13-valued column, and two columns whose NAMES are not valid UTF-8 (a stored
// schema must keep them byte for byte).
func wideRow(i int) model.Row {
	r := model.Row{"uniq": strconv.Itoa(i), "m13": strconv.Itoa(i % 13)}
	if i%2 == 0 {
		r["caf\xe9"] = strconv.Itoa(i % 3)
	}
	if i%5 == 0 {
		r["\xff\x01"] = "v\xfe"
	}
	return r
}

const wideN = 1300

func wideExprs() []*model.Expr {
	ids := func(lo, hi int) []*model.Expr {
		var k []*model.Expr
		for i := lo; i < hi; i++ {
			k = append(k, model.Eq("uniq", strconv.Itoa(i)))
		}
		return k
	}
	nots := func(lo, hi int) []*model.Expr {
		var k []*model.Expr
		for _, e := range ids(lo, hi) {
			k = append(k, model.Not(e))
		}
		return k
	}
	out := []*model.Expr{
		model.Eq("caf\xe9", "1"), model.Eq("\xff\x01", "v\xfe"), model.Not(model.Eq("\xff\x01", "v\xfe")), model.Eq("caf\ufffd", "1"), model.Eq("\ufffd\x01", "v\xfe"),
		model.And(model.Eq("caf\xe9", "0"), model.Eq("\xff\x01", "v\xfe")),
	}
	// operators with 2, 64, 65, 200, 201, 1000, 1001 and 1300 operands (flat), and the same split over two nested operators
	for _, w := range []int{2, 64, 65, 200, 201, 1000, 1001, wideN} {
		out = append(out, model.Or(ids(0, w)...), model.And(nots(0, w)...), model.Or(model.Or(ids(0, w/2)...), model.Or(ids(w/2, w)...)), model.And(model.Eq("m13", "0"), model.Or(nots(0, w)...)))
		// repeated operands: the same value several times in one list
		out = append(out, model.Or(append(ids(0, w), ids(0, w)...)...))
	}
	return out
}

func c01SpaceW(ctx *rt.Ctx, job *rt.Job, a c01Args) []*rt.Violation {
	exprs := wideExprs()
	uex := make([]updog.Expression, len(exprs))
	for i, e := range exprs {
		uex[i] = e.Updog()
	}
	if v := c01CheckDataset(ctx, "W", wideN, 0, wideRow, nil, exprs, uex, 0, len(exprs), true); v != nil {
		return []*rt.Violation{v}
	}
	ctx.Cov.Add("datasets", 1)
	ctx.Cov.Add("wide_expressions", int64(len(exprs)))
	ctx.Cov.Sample(1, map[string]any{"space": "W", "rows": wideN, "expressions": len(exprs), "widest_operator": wideN})
	return nil
}

// ---- Space H: values whose 64-bit keys coincide in part -----------------------------------

// hashPairs finds, by birthday search over the values h0, h1, ... of column "h", pairs whose keys (xxhash64 of
// column NUL value, the derivation in writer.go) coincide in their low 32 bits, in their high 32 bits and in their low
// 16 bits: the full key is 64 bits wide, and anything that identifies a value by a part of it (a table of known
// misses, a shard index, a 32-bit field) confuses exactly such pairs.
func hashPairs() [][2]string {
	key := func(v string) uint64 { return xxhash.Sum64(append(append([]byte("h"), 0), []byte(v)...)) }
	var out [][2]string
	for _, part := range []func(uint64) uint64{func(k uint64) uint64 { return k & 0xffffffff }, func(k uint64) uint64 { return k >> 32 }, func(k uint64) uint64 { return k & 0xffff }, func(k uint64) uint64 { return k >> 48 }} {
		seen := map[uint64]string{}
		for i := 0; i < 2000000; i++ {
			v := "h" + strconv.Itoa(i)
			p := part(key(v))
			if w, ok := seen[p]; ok {
				out = append(out, [2]string{w, v})
				break
			}
			seen[p] = v
		}
	}
	return out
}

var hashPairsMemo [][2]string

func hashRow(i int) model.Row {
	if hashPairsMemo == nil {
		hashPairsMemo = hashPairs()
	}
	// the first value of every pair occurs (on a few rows each), the second one only for the last pair
	r := model.Row{"id": strconv.Itoa(i)}
	np := len(hashPairsMemo)
	switch {
	case i < 5*np:
		r["h"] = hashPairsMemo[i/5][0]
	case i < 5*np+3:
		r["h"] = hashPairsMemo[np-1][1]
	}
	return r
}

func c01SpaceH(ctx *rt.Ctx, job *rt.Job, a c01Args) []*rt.Violation {
	hashRow(0)
	n := 5*len(hashPairsMemo) + 6
	var exprs []*model.Expr
	for _, p := range hashPairsMemo {
		absent, present := model.Eq("h", p[1]), model.Eq("h", p[0])
		// the partner first (a miss, except for the last pair), then the value itself, then the partner again
		exprs = append(exprs, absent, present, model.Not(absent), model.Not(present), absent, model.Or(absent, present), model.And(present, model.Not(absent)))
	}
	uex := make([]updog.Expression, len(exprs))
	for i, e := range exprs {
		uex[i] = e.Updog()
	}
	if v := c01CheckDataset(ctx, "H", n, 0, hashRow, nil, exprs, uex, 0, len(exprs), true); v != nil {
		return []*rt.Violation{v}
	}
	ctx.Cov.Add("datasets", 1)
	ctx.Cov.Sample(1, map[string]any{"space": "H", "pairs_with_partly_equal_keys": hashPairsMemo, "parts": []string{"low 32 bits", "high 32 bits", "low 16 bits", "high 16 bits"}})
	return nil
}

// ---- Space C: truth-table dataset ------------------------------------------------------

// truthRows: the 8 membership combinations of a=1,b=1,c=1 with multiplicities 1,2,4,...,128, so that the
// count of an expression identifies its boolean function exactly.
func truthRows() []model.Row {
	var rows []model.Row
	for m := 0; m < 8; m++ {
		for k := 0; k < 1<<uint(m); k++ {
			r := model.Row{}
			for bit, col := range []string{"a", "b", "c"} {
				if m&(1<<uint(bit)) != 0 {
					r[col] = "1"
				} else if k%2 == 0 {
					r[col] = "0" // otherwise the column is missing on this row
				}
			}
			rows = append(rows, r)
		}
	}
	return rows
}

func truthLeaves() []*model.Expr {
	return []*model.Expr{model.Eq("a", "1"), model.Eq("b", "1"), model.Eq("c", "1")}
}

func c01SpaceC(ctx *rt.Ctx, job *rt.Job, a c01Args) []*rt.Violation {
	rows := truthRows()
	exprs := model.Trees(truthLeaves(), a.Depth, a.Arity)
	lo := len(exprs) * job.Shard / job.NShards
	hi := len(exprs) * (job.Shard + 1) / job.NShards
	uex := make([]updog.Expression, len(exprs))
	for i := lo; i < hi; i++ {
		uex[i] = exprs[i].Updog()
	}
	v := c01CheckDataset(ctx, "C", len(rows), 0, func(i int) model.Row { return rows[i] }, nil, exprs, uex, lo, hi, true)
	if v != nil {
		return []*rt.Violation{v}
	}
	if job.Shard == 0 {
		ctx.Cov.Add("datasets", 1)
		ctx.Cov.Note("spaceC", fmt.Sprintf("truth-table dataset (255 rows) x %d expressions (all trees depth<=%d arity<=%d over 3 leaves) x 3 writers x 2 open modes", len(exprs), a.Depth, a.Arity))
		ctx.Cov.Sample(1, map[string]any{"space": "C", "expr": exprs[len(exprs)-1].String()})
	}
	return nil
}

// ---- the NUL-byte column input the property excludes and asks to report separately ----

func c01NulCase() c01Case {
	return c01Case{Space: "nul", Rows: []model.Row{{"a\x00b": "c"}, {"a": "b\x00c"}}, Writer: int(ix.MemFile), Expr: model.Eq("a", "b\x00c")}
}

func c01CheckCase(ctx *rt.Ctx, c c01Case) *rt.Violation {
	var rowf func(i int) model.Row
	n := len(c.Rows)
	switch c.Space {
	case "B":
		s := newSpaceB(c.N, c.Trail)
		rowf, n = s.row, s.total()
	case "C":
		rows := truthRows()
		rowf, n = func(i int) model.Row { return rows[i] }, len(rows)
	case "W":
		rowf, n = wideRow, wideN
	case "H":
		hashRow(0)
		rowf, n = hashRow, 5*len(hashPairsMemo)+6
	default:
		rowf = func(i int) model.Row { return c.Rows[i] }
	}
	d := model.NewData(n)
	for i := 0; i < n; i++ {
		for k, v := range rowf(i) {
			d.Add(i, k, v)
		}
	}
	path, ids, err := ix.BuildFunc(ctx.Scratch, n, rowf, ix.Writer(c.Writer))
	if err != nil {
		return rt.NewViolation("C01", "count", c.sig()+" build", c, "writer failed: %v", err)
	}
	defer removeFile(path)
	for i, id := range ids {
		if id != uint32(i) {
			return rt.NewViolation("C01", "count", c.sig()+" ids", c, "AddRow #%d returned id %d", i, id)
		}
	}
	idx, err := ix.Open(path, c.Preload, nil)
	if err != nil {
		return rt.NewViolation("C01", "count", c.sig()+" open", c, "cannot open: %v", err)
	}
	defer idx.Close()
	if c.Expr == nil {
		return nil
	}
	for _, h := range c.History {
		execCount(idx, h.Updog())
	}
	if msg := compareCount(d, c.Expr, idx, c.Expr.Updog()); msg != "" {
		return rt.NewViolation("C01", "count", c.sig(), c, "%s", msg)
	}
	return nil
}

func c01Run(ctx *rt.Ctx) []*rt.Violation {
	var jobs []rt.Job
	add := func(name string, a c01Args, shards int) {
		b, _ := json.Marshal(a)
		for s := 0; s < shards; s++ {
			jobs = append(jobs, rt.Job{Name: name, Shard: s, NShards: shards, Args: b})
		}
	}
	// big boundary datasets first (longest jobs)
	var bn []int
	if ctx.Thorough() {
		bn = []int{150001, 65537, 65536, 65535, 4097, 4096, 4095, 1001, 1000, 999, 2, 1}
		for _, n := range bn {
			add(fmt.Sprintf("B%d", n), c01Args{Space: "B", N: n}, 1)
			add(fmt.Sprintf("B%d+3", n), c01Args{Space: "B", N: n, Trail: 3}, 1)
		}
		add("A", c01Args{Space: "A", Rows: 4, Depth: 1, Arity: 2}, 16)
		add("A2", c01Args{Space: "A2", Rows: 4, Depth: 1, Arity: 2}, 16)
		add("A2", c01Args{Space: "A", Rows: 3, Depth: 2, Arity: 2}, 32)
		add("C", c01Args{Space: "C", Depth: 2, Arity: 3}, 16)
		add("C3", c01Args{Space: "C", Depth: 3, Arity: 2}, 48)
	} else {
		bn = []int{65537, 4097, 4096, 4095, 1001, 1000, 999, 2, 1}
		for _, n := range bn {
			tr := 0
			if n == 4096 || n == 1000 || n == 1 {
				tr = 3
			}
			add(fmt.Sprintf("B%d", n), c01Args{Space: "B", N: n, Trail: tr}, 1)
		}
		add("B65536", c01Args{Space: "B", N: 65536, Trail: 3}, 1)
		add("A", c01Args{Space: "A", Rows: 3, Depth: 1, Arity: 2}, 8)
		add("A2", c01Args{Space: "A2", Rows: 3, Depth: 1, Arity: 2}, 8)
		add("C", c01Args{Space: "C", Depth: 2, Arity: 3}, 16)
	}
	add("W", c01Args{Space: "W"}, 1)
	add("H", c01Args{Space: "H"}, 1)
	outs := rt.RunJobs(ctx, jobs, rt.SpawnOpt{})
	vs := rt.Collect(ctx, outs, nil)
	// an expression object executed, edited in place by the caller, and executed again (no cache involved)
	if v := c03EditedCfg(ctx, []c03Cfg{{Preload: false, Cache: "none"}, {Preload: true, Cache: "none"}}); v != nil {
		v.Prop = "C01"
		vs = append(vs, v)
	}
	// the excluded NUL input, executed and reported separately
	nc := c01NulCase()
	if v := c01CheckCase(ctx, nc); v != nil {
		v.Sig = "nul-byte-in-column-name " + nc.sig()
		vs = append(vs, v)
	}
	ctx.Cov.Add("evaluations", 1)
	ctx.Cov.Note("rule", "every (dataset, expression, writer, open mode) of three finite spaces is executed on the real index and compared with a bit-vector reference model; a case is non-trivial (counted once per dataset x expression) when the expression has >=1 operator and 0 < count < rows")
	ctx.Cov.Note("boundary_row_counts", bn)
	ctx.Assumef("64-bit hash collisions between distinct (column,value) pairs are assumed away (property text)")
	ctx.Assumef("datasets beyond the three finite spaces (small-scope product, boundary family with interval-shaped bitmaps, truth table) are not covered")
	return vs
}

func c01Replay(ctx *rt.Ctx, v *rt.Violation) *rt.Violation {
	if v.Kind == "edited" {
		r := c03EditedCfg(ctx, []c03Cfg{{Preload: false, Cache: "none"}, {Preload: true, Cache: "none"}})
		if r != nil {
			r.Prop = "C01"
		}
		return r
	}
	var c c01Case
	if err := json.Unmarshal(v.Case, &c); err != nil {
		rt.Harnessf("case: %v", err)
	}
	got := c01CheckCase(ctx, c)
	if got != nil && c.Space == "nul" {
		got.Sig = "nul-byte-in-column-name " + c.sig()
	}
	return got
}

func init() {
	register(&Property{ID: "C01", Level: "exploration", Run: c01Run, Worker: c01Worker, Replay: c01Replay})
}
