package props

import (
	"encoding/json"
	"fmt"
	"github.com/akrennmair/updog/zzverif/flk"
	"os"
	"strings"

	"github.com/akrennmair/updog"
	"github.com/akrennmair/updog/internal/convert"
	updogv1 "github.com/akrennmair/updog/proto/updog/v1"
	"github.com/akrennmair/updog/zzverif/ix"
	"github.com/akrennmair/updog/zzverif/model"
	"github.com/akrennmair/updog/zzverif/rt"
	"google.golang.org/grpc/codes"
	"google.golang.org/grpc/status"
	"google.golang.org/protobuf/encoding/protojson"
	"google.golang.org/protobuf/proto"
)

// C14 — no request can crash the server: structural enumeration of decodable request messages, first
// in-process (ToQuery + Execute under recover), then over the wire against the real server, each followed
// by a well-formed probe.

func c14Rows() []model.Row {
	return []model.Row{{"a": "x", "b": "1"}, {"a": "y", "b": "1"}, {"a": "x"}, {}}
}

type pexpr = updogv1.Query_Expression

func pEq(col, val string, ph int32) *pexpr {
	return &pexpr{Value: &updogv1.Query_Expression_Eq{Eq: &updogv1.Query_Expression_Equal{Column: col, Value: val, Placeholder: ph}}}
}
func pNot(k *pexpr) *pexpr {
	return &pexpr{Value: &updogv1.Query_Expression_Not_{Not: &updogv1.Query_Expression_Not{Expr: k}}}
}
func pAnd(k ...*pexpr) *pexpr {
	return &pexpr{Value: &updogv1.Query_Expression_And_{And: &updogv1.Query_Expression_And{Exprs: k}}}
}
func pOr(k ...*pexpr) *pexpr {
	return &pexpr{Value: &updogv1.Query_Expression_Or_{Or: &updogv1.Query_Expression_Or{Exprs: k}}}
}

// c14Base: everything decodable that has no sub-expression.
func c14Base() []*pexpr {
	out := []*pexpr{{}} // oneof unset
	for _, col := range []string{"a", "zz", ""} {
		for _, ph := range []int32{0, 1} {
			out = append(out, pEq(col, "x", ph))
		}
	}
	return append(out, pNot(nil), pAnd(), pOr())
}

// c14Exprs enumerates the expression space to the given depth.
func c14Exprs(depth int) []*pexpr {
	cur := c14Base()
	for d := 0; d < depth; d++ {
		next := c14Base()
		for _, k := range cur {
			next = append(next, pNot(k))
		}
		for _, mk := range []func(...*pexpr) *pexpr{pAnd, pOr} {
			for _, k := range cur {
				next = append(next, mk(k))
			}
			for _, k1 := range cur {
				for _, k2 := range cur {
					next = append(next, mk(k1, k2))
				}
			}
		}
		cur = next
	}
	return cur
}

func c14Nested(n int, inner *pexpr) *pexpr {
	e := inner
	for i := 0; i < n; i++ {
		e = pNot(e)
	}
	return e
}

type c14Case struct {
	Request string `json:"request"` // protojson of the QueryRequest
	Wire    bool   `json:"wire"`
	Nest    int    `json:"nest,omitempty"` // instead of Request: n NOTs around Inner
	Inner   string `json:"inner,omitempty"`
	Cfg     int    `json:"cfg,omitempty"`    // server flag combination + 1 (0 = the default configuration)
	Repeat  int    `json:"repeat,omitempty"` // the request is sent this many times before the probe
}

// c14SrvFlags decodes a flag combination: bit 0 cache off, bit 1 preloaded data, bit 2 verbose, bits 3-4 max-cache-size.
func c14SrvFlags(cfg int) (cache, preload bool, extra []string) {
	if cfg&4 != 0 {
		extra = append(extra, "-v")
	}
	extra = append(extra, [][]string{nil, {"--max-cache-size", "0"}, {"--max-cache-size", "1"}, {"--max-cache-size", "300"}}[(cfg>>3)&3]...)
	return cfg&1 == 0, cfg&2 != 0, extra
}

func (c c14Case) sig() string {
	if c.Nest > 0 {
		return fmt.Sprintf("wire=%v request=%d nested NOTs around %s", c.Wire, c.Nest, c.Inner)
	}
	s := fmt.Sprintf("wire=%v request=%s", c.Wire, c.Request)
	if c.Cfg > 0 {
		ca, pre, extra := c14SrvFlags(c.Cfg - 1)
		s += fmt.Sprintf(" server-flags=[enable-cache=%v preloaded=%v %s]", ca, pre, strings.Join(extra, " "))
	}
	if c.Repeat > 1 {
		s += fmt.Sprintf(" sent-%d-times", c.Repeat)
	}
	return s
}

func reqJSON(r *updogv1.QueryRequest) string {
	b, err := protojson.MarshalOptions{EmitUnpopulated: false}.Marshal(r)
	if err != nil {
		return "unmarshalable: " + err.Error()
	}
	// protojson output is not byte-stable across versions (random spaces): normalise
	var v any
	json.Unmarshal(b, &v)
	b, _ = json.Marshal(v)
	return string(b)
}

func (c c14Case) request() *updogv1.QueryRequest {
	if c.Nest > 0 {
		inner := &pexpr{}
		if c.Inner == "eq" {
			inner = pEq("a", "x", 0)
		} else if c.Inner == "absent" {
			inner = nil
		}
		return &updogv1.QueryRequest{Queries: []*updogv1.Query{{Expr: c14Nested(c.Nest, inner)}}}
	}
	var r updogv1.QueryRequest
	if err := protojson.Unmarshal([]byte(c.Request), &r); err != nil {
		rt.Harnessf("request json: %v", err)
	}
	return &r
}

// c14InProcess: what the handler does, under recover.
func c14InProcess(idx *updog.Index, req *updogv1.QueryRequest) (viol string) {
	// decode what the wire would deliver
	b, err := proto.Marshal(req)
	if err != nil {
		return ""
	}
	var r updogv1.QueryRequest
	if err := proto.Unmarshal(b, &r); err != nil {
		return "" // not decodable: outside the property
	}
	defer func() {
		if p := recover(); p != nil {
			viol = fmt.Sprintf("the request handler panics (the server installs no recovery, so the process dies): %v", p)
		}
	}()
	for _, pbq := range r.Queries {
		q := convert.ToQuery(pbq)
		res, err := idx.Execute(q)
		if err != nil {
			break
		}
		convert.ToProtobufResult(res, 1)
	}
	// a well-formed request afterwards is answered correctly (what the handler would do for the probe)
	pq := c14NextProbe().Queries[0]
	res, err := idx.Execute(convert.ToQuery(pq))
	if err != nil {
		return fmt.Sprintf("after the request a well-formed probe fails: %v", err)
	}
	if m := c14ProbeOK(&updogv1.QueryResponse{Results: []*updogv1.Result{convert.ToProtobufResult(res, 7)}}, nil); m != "" {
		return "after the request (in-process) the " + m
	}
	return ""
}

// the probe uses every operator (state left behind by an earlier, rejected request must not leak into it) and is a
// different expression every time (a value that occurs nowhere, numbered), so that no result cache can answer it
var c14ProbeSeq int

func c14NextProbe() *updogv1.QueryRequest {
	c14ProbeSeq++
	absent := fmt.Sprintf("nope%d", c14ProbeSeq)
	return &updogv1.QueryRequest{Queries: []*updogv1.Query{{Id: 7, Expr: pOr(pAnd(pEq("a", "x", 0), pNot(pEq("b", absent, 0))), pAnd(pEq("a", absent, 0), pEq("a", "y", 0))), GroupBy: []string{"b"}}}}
}

func c14ProbeOK(resp *updogv1.QueryResponse, err error) string {
	if err != nil {
		return fmt.Sprintf("probe failed: %v", err)
	}
	if len(resp.Results) != 1 || resp.Results[0].QueryId != 7 || resp.Results[0].TotalCount != 2 || len(resp.Results[0].Groups) != 1 || resp.Results[0].Groups[0].Count != 1 {
		return fmt.Sprintf("probe answered wrongly: %v", resp)
	}
	return ""
}

type c14Args struct {
	Mode  string `json:"mode"` // inproc | wire
	Depth int    `json:"depth"`
	Cfg   int    `json:"cfg,omitempty"`
}

func c14Requests(e *pexpr, i int) []*updogv1.QueryRequest {
	gbs := [][]string{nil, {"a"}, {"zz"}}
	gb := gbs[i%3]
	q := &updogv1.Query{Id: int32(i % 2), Expr: e, GroupBy: gb}
	valid := &updogv1.Query{Expr: pEq("a", "x", 0)}
	return []*updogv1.QueryRequest{
		{Queries: []*updogv1.Query{q}},
		{Queries: []*updogv1.Query{valid, q, valid}},
	}
}

func c14Worker(ctx *rt.Ctx, job *rt.Job) []*rt.Violation {
	var a c14Args
	job.Decode(&a)
	p, _, err := ix.Build(ctx.Scratch, c14Rows(), ix.MemFile)
	if err != nil {
		rt.Harnessf("build: %v", err)
	}
	defer os.Remove(p)
	exprs := c14Exprs(a.Depth)
	var vs []*rt.Violation
	seen := map[string]bool{}
	report := func(c c14Case, msg string) {
		k := msg
		if i := strings.Index(msg, ":"); i > 0 {
			k = msg[:i]
		}
		if len(vs) < 6 && !seen[k+fmt.Sprint(c.Wire)] {
			seen[k+fmt.Sprint(c.Wire)] = true
			vs = append(vs, rt.NewViolation("C14", "request", c.sig(), c, "%s", msg))
		}
	}
	special := []*updogv1.QueryRequest{
		{Queries: []*updogv1.Query{{}}},                       // query without expression
		{Queries: []*updogv1.Query{{GroupBy: []string{"a"}}}}, // only a group-by list
		{Queries: []*updogv1.Query{{Id: 3}, {Expr: pEq("a", "x", 0)}}},
		{},
	}
	// operators with many operands (0..12), flat and nested
	for k := 0; k <= 12; k++ {
		var ops []*pexpr
		for i := 0; i < k; i++ {
			ops = append(ops, pEq("a", []string{"x", "y", "nope"}[i%3], 0))
		}
		special = append(special,
			&updogv1.QueryRequest{Queries: []*updogv1.Query{{Expr: pAnd(ops...)}}},
			&updogv1.QueryRequest{Queries: []*updogv1.Query{{Expr: pOr(ops...), GroupBy: []string{"a"}}}},
			&updogv1.QueryRequest{Queries: []*updogv1.Query{{Expr: pNot(pOr(pAnd(ops...), pEq("b", "1", 0)))}}})
	}
	// ladders: a deep chain in which every level has two operator operands
	for _, d := range []int{8, 17, 24, 40, 100} {
		e := pAnd(pNot(pEq("a", "x", 0)), pNot(pEq("b", "1", 0)))
		for i := 0; i < d; i++ {
			if i%2 == 0 {
				e = pAnd(pOr(e, pEq("a", "y", 0)), pNot(pEq("b", "1", 0)))
			} else {
				e = pOr(pAnd(e), pNot(pOr(pEq("a", "x", 0), pEq("a", "nope", 0))))
			}
		}
		special = append(special, &updogv1.QueryRequest{Queries: []*updogv1.Query{{Expr: e}}}, &updogv1.QueryRequest{Queries: []*updogv1.Query{{Expr: e, GroupBy: []string{"a"}}}})
	}
	// group-by lists that repeat a column 40 .. 65 times (the product of the value counts passes 2^63, 2^64), and a list
	// of two columns followed by a list naming one unknown column that spells the same when joined with a comma
	for _, n := range []int{31, 32, 33, 40, 41, 62, 63, 64, 65} {
		for _, col := range []string{"a", "b"} {
			var gb []string
			for i := 0; i < n; i++ {
				gb = append(gb, col)
			}
			special = append(special, &updogv1.QueryRequest{Queries: []*updogv1.Query{{Expr: pNot(pEq("a", "nope", 0)), GroupBy: gb}}})
		}
	}
	special = append(special,
		&updogv1.QueryRequest{Queries: []*updogv1.Query{{Expr: pEq("a", "x", 0), GroupBy: []string{"a", "b"}}}},
		&updogv1.QueryRequest{Queries: []*updogv1.Query{{Expr: pEq("a", "x", 0), GroupBy: []string{"a,b"}}}},
		&updogv1.QueryRequest{Queries: []*updogv1.Query{{Expr: pEq("a", "x", 0), GroupBy: []string{"a b"}}}},
		&updogv1.QueryRequest{Queries: []*updogv1.Query{{Expr: pEq("a", "x", 0), GroupBy: []string{"b", "a"}}}})
	nests := []c14Case{{Nest: 100, Inner: "eq"}, {Nest: 100, Inner: "unset"}, {Nest: 100, Inner: "absent"}, {Nest: 4990, Inner: "eq"}, {Nest: 4990, Inner: "unset"}}
	if a.Mode == "inproc" {
		flk.Sequential(true) // a request that blocks for good is a hang, decided by the state of all goroutines
		defer flk.Sequential(false)
		idx, err := ix.Open(p, false, updog.NewLRUCache(1<<20))
		if err != nil {
			rt.Harnessf("open: %v", err)
		}
		defer idx.Close()
		try := func(r *updogv1.QueryRequest, c c14Case) {
			ctx.Cov.Add("evaluations", 1)
			ctx.Cov.Add("distinct_nontrivial", 1)
			if m := c14InProcess(idx, r); m != "" {
				if c.Nest == 0 {
					c.Request = reqJSON(r)
				}
				report(c, m)
			}
		}
		for i, e := range exprs {
			if i%job.NShards != job.Shard {
				continue
			}
			for _, r := range c14Requests(e, i) {
				try(r, c14Case{})
			}
		}
		if job.Shard == 0 {
			for _, r := range special {
				try(r, c14Case{})
			}
			for _, n := range nests {
				try(n.request(), n)
			}
			ctx.Cov.Sample(2, map[string]any{"mode": "in-process", "expressions": len(exprs), "example": reqJSON(c14Requests(exprs[len(exprs)-7], 1)[1])})
		}
		return vs
	}
	// over the wire
	cacheOn, preloadOn := true, false
	if a.Mode == "configs" {
		cacheOn, preloadOn, srvExtraArgs = c14SrvFlags(a.Cfg)
		defer func() { srvExtraArgs = nil }()
	}
	srv := startServer(p, cacheOn, preloadOn)
	defer func() { srv.stop() }()
	try := func(r *updogv1.QueryRequest, c c14Case) {
		c.Wire = true
		ctx.Cov.Add("evaluations", 1)
		ctx.Cov.Add("distinct_nontrivial", 1)
		ctx.Cov.Add("rpcs", 2)
		_, err := srv.query(r)
		died := false
		if err != nil && status.Code(err) == codes.Unavailable {
			died = srv.waitDead()
		}
		if !died {
			// liveness + correctness of a subsequent well-formed request
			resp, perr := srv.query(c14NextProbe())
			if m := c14ProbeOK(resp, perr); m != "" {
				if !srv.alive() || srv.waitDead() {
					died = true
				} else {
					if c.Nest == 0 {
						c.Request = reqJSON(r)
					}
					report(c, "after the request the server is alive but "+m)
					// a server that stopped answering would cost a time-out per request from here on: start a new one
					srv.stop()
					srv = startServer(p, cacheOn, preloadOn)
					return
				}
			}
		}
		if died {
			ctx.Cov.Add("server_deaths", 1)
			if c.Nest == 0 {
				c.Request = reqJSON(r)
			}
			tail := srv.stderr.String()
			if i := strings.Index(tail, "panic:"); i >= 0 {
				tail = tail[i:]
				if j := strings.Index(tail, "\n"); j > 0 {
					tail = tail[:j]
				}
			} else if len(tail) > 200 {
				tail = tail[len(tail)-200:]
			}
			report(c, "the server process died: "+tail)
			srv.stop()
			srv = startServer(p, cacheOn, preloadOn)
		}
	}
	if a.Mode == "configs" {
		// every combination of the server's flags answers a short list: well-formed (plain, operators, grouped), rejected
		// at execution, rejected as incomplete
		short := []*updogv1.QueryRequest{
			{Queries: []*updogv1.Query{{Expr: pEq("a", "x", 0)}}},
			{Queries: []*updogv1.Query{{Expr: pNot(pOr(pEq("a", "x", 0), pEq("b", "1", 0))), GroupBy: []string{"a"}}}},
			{Queries: []*updogv1.Query{{Expr: pAnd(pEq("a", "x", 0), pEq("nosuch", "1", 0))}}},
			{Queries: []*updogv1.Query{{Expr: pOr(pEq("nosuch", "1", 0), pEq("nosuch", "2", 0))}}},
			{Queries: []*updogv1.Query{{Expr: pEq("a", "x", 0), GroupBy: []string{"nosuch"}}}},
			{Queries: []*updogv1.Query{{Expr: pNot(nil)}}},
			{Queries: []*updogv1.Query{{}}},
			{Queries: []*updogv1.Query{{Expr: pEq("a", "", 1)}}},
			{Queries: []*updogv1.Query{{Expr: pEq("a", "x", 0)}, {Expr: pAnd()}, {Expr: pEq("a", "y", 0), GroupBy: []string{"b", "a"}}}},
		}
		for _, r := range short {
			try(r, c14Case{Cfg: a.Cfg + 1})
		}
		ctx.Cov.Add("server_configurations", 1)
		return vs
	}
	if a.Mode == "soak" {
		// one server, the same rejected request many times in a row (whatever a rejected request leaves behind adds up)
		kinds := []*updogv1.QueryRequest{
			{Queries: []*updogv1.Query{{Expr: pAnd(pEq("a", "x", 0), pEq("nosuch", "1", 0))}}},
			{Queries: []*updogv1.Query{{Expr: pEq("a", "x", 0), GroupBy: []string{"nosuch"}}}},
			{Queries: []*updogv1.Query{{Expr: pEq("a", "x", 0)}, {Expr: pNot(nil)}}},
			{Queries: []*updogv1.Query{{Expr: pEq("a", "", 1)}}},
			{Queries: []*updogv1.Query{{Expr: pOr(pEq("a", "x", 0), pEq("a", "y", 0)), GroupBy: []string{"a", "b"}}}},
		}
		for _, r := range kinds {
			for i := 0; i < 150 && len(vs) == 0; i++ {
				try(r, c14Case{Repeat: i + 1})
			}
		}
		ctx.Cov.Add("soak_requests", int64(150*len(kinds)))
		return vs
	}
	for i, e := range exprs {
		if i%job.NShards != job.Shard {
			continue
		}
		for _, r := range c14Requests(e, i) {
			try(r, c14Case{})
		}
		if len(vs) >= 6 || ctx.Expired() {
			if ctx.Expired() {
				ctx.Cov.Cap("deadline in wire enumeration")
			}
			break
		}
	}
	if job.Shard == 0 {
		for _, r := range special {
			try(r, c14Case{})
		}
		for _, n := range nests {
			try(n.request(), n)
		}
		ctx.Cov.Sample(1, map[string]any{"mode": "wire", "expressions": len(exprs), "example": reqJSON(c14Requests(exprs[len(exprs)-3], 2)[0])})
	}
	return vs
}

func c14Run(ctx *rt.Ctx) []*rt.Violation {
	var jobs []rt.Job
	add := func(a c14Args, shards int) {
		b, _ := json.Marshal(a)
		for s := 0; s < shards; s++ {
			jobs = append(jobs, rt.Job{Name: a.Mode, Shard: s, NShards: shards, Args: b})
		}
	}
	if ctx.Thorough() {
		add(c14Args{Mode: "inproc", Depth: 2}, 8)
		add(c14Args{Mode: "wire", Depth: 2}, 16)
	} else {
		add(c14Args{Mode: "inproc", Depth: 2}, 8)
		add(c14Args{Mode: "wire", Depth: 1}, 8)
	}
	add(c14Args{Mode: "soak"}, 1)
	for cfg := 0; cfg < 32; cfg++ {
		b, _ := json.Marshal(c14Args{Mode: "configs", Cfg: cfg})
		jobs = append(jobs, rt.Job{Name: "configs", Shard: 0, NShards: 1, Args: b})
	}
	outs := rt.RunJobs(ctx, jobs, rt.SpawnOpt{})
	vs := rt.Collect(ctx, outs, nil)
	ctx.Cov.Note("rule", "expression space E(d): {oneof unset, Eq(col in known/unknown/empty, placeholder 0/1), Not without child, And(), Or()} closed under Not(e), And/Or of 1..2 operands, to depth d (|E(1)|=240, |E(2)|=115930); each as a single-query request and inside (valid, X, valid), with group-by in {none, known, unknown} and id 0/1; plus queries without expression, the empty request, and 100 / 4990 nested NOTs; in-process: encode+decode, ToQuery, Execute, ToProtobufResult under recover; wire: real `updog server`, after every request a well-formed probe must be answered correctly, a dead server is restarted and the enumeration continues; one server additionally answers each of 5 rejected / grouped requests 150 times in a row (what a rejected request leaves behind adds up); all 32 combinations of the server flags {enable-cache, preloaded data, verbose, max-cache-size default/0/1/300} answer a short list of well-formed and rejected requests")
	ctx.Assumef("random protobuf-valid byte strings are replaced by the structural enumeration (sampling is a different technique)")
	ctx.Assumef("server liveness is observed as process exit; loopback TCP only")
	return vs
}

func c14Replay(ctx *rt.Ctx, v *rt.Violation) *rt.Violation {
	var c c14Case
	if err := json.Unmarshal(v.Case, &c); err != nil {
		rt.Harnessf("case: %v", err)
	}
	p, _, err := ix.Build(ctx.Scratch, c14Rows(), ix.MemFile)
	if err != nil {
		rt.Harnessf("build: %v", err)
	}
	defer os.Remove(p)
	r := c.request()
	if !c.Wire {
		idx, err := ix.Open(p, false, updog.NewLRUCache(1<<20))
		if err != nil {
			rt.Harnessf("open: %v", err)
		}
		defer idx.Close()
		if m := c14InProcess(idx, r); m != "" {
			return rt.NewViolation("C14", "request", c.sig(), c, "%s", m)
		}
		return nil
	}
	cacheOn, preloadOn := true, false
	if c.Cfg > 0 {
		cacheOn, preloadOn, srvExtraArgs = c14SrvFlags(c.Cfg - 1)
		defer func() { srvExtraArgs = nil }()
	}
	srv := startServer(p, cacheOn, preloadOn)
	defer srv.stop()
	var qerr error
	for i := 0; i < c.Repeat-1; i++ {
		srv.query(r)
		srv.query(c14NextProbe())
	}
	_, qerr = srv.query(r)
	if qerr != nil && status.Code(qerr) == codes.Unavailable && srv.waitDead() {
		return rt.NewViolation("C14", "request", c.sig(), c, "the server process died")
	}
	resp, perr := srv.query(c14NextProbe())
	if m := c14ProbeOK(resp, perr); m != "" {
		return rt.NewViolation("C14", "request", c.sig(), c, "after the request: %s", m)
	}
	return nil
}

func init() {
	register(&Property{ID: "C14", Level: "fault_enumeration", Run: c14Run, Worker: c14Worker, Replay: c14Replay})
}
