package props

import (
	"bytes"
	"crypto/sha256"
	"encoding/hex"
	"encoding/json"
	"fmt"
	"github.com/akrennmair/updog/zzverif/ptk"
	"github.com/akrennmair/updog/zzverif/vsched"
	"os"
	"os/exec"
	"path/filepath"
	"strconv"
	"strings"
	"syscall"

	"github.com/akrennmair/updog"
	"github.com/akrennmair/updog/zzverif/ix"
	"github.com/akrennmair/updog/zzverif/model"
	"github.com/akrennmair/updog/zzverif/rt"
	"go.etcd.io/bbolt"
)

// C16 — existing files are never clobbered; reading never modifies the index file.

type c16Case struct {
	Kind     string   `json:"kind"` // clobber | read
	Existing string   `json:"existing,omitempty"`
	Rows     int      `json:"rows,omitempty"`
	Via      string   `json:"via,omitempty"` // flush | create | create-big
	History  []string `json:"history,omitempty"`
	Writer   int      `json:"writer,omitempty"` // read: which writer path produced the index
	Name     string   `json:"name,omitempty"`   // clobber: file name of the output path (default out.updog)
	Signal   string   `json:"signal,omitempty"` // clobber via create: "int" / "term": the command is interrupted at every point of its run
}

func (c c16Case) sig() string {
	if c.Kind == "clobber" {
		x := ""
		if c.Name != "" {
			x += " output-name=" + c.Name
		}
		if c.Signal != "" {
			x += " interrupted-by=SIG" + strings.ToUpper(c.Signal) + "-at-every-point"
		}
		return fmt.Sprintf("clobber existing=%s rows=%d via=%s%s", c.Existing, c.Rows, c.Via, x)
	}
	return fmt.Sprintf("read index-written-by=%s history=%s", ix.Writer(c.Writer), strings.Join(c.History, ";"))
}

func sha(b []byte) string { h := sha256.Sum256(b); return hex.EncodeToString(h[:]) }

func fileState(p string) string {
	b, err := os.ReadFile(p)
	if err != nil {
		return "unreadable:" + err.Error()
	}
	fi, _ := os.Stat(p)
	return fmt.Sprintf("%s/%d/%v", sha(b)[:16], len(b), fi.Mode().Perm())
}

func c16Rows(n int) []model.Row {
	rows := make([]model.Row, n)
	for i := range rows {
		rows[i] = model.Row{"v": strconv.Itoa(i), "k": strconv.Itoa(i % 3)}
	}
	return rows
}

func c16Clobber(ctx *rt.Ctx, c c16Case) string {
	dir := ctx.TempDir("c16")
	defer os.RemoveAll(dir)
	out := filepath.Join(dir, "out.updog")
	if c.Name != "" {
		out = filepath.Join(dir, c.Name)
	}
	switch c.Existing {
	case "empty":
		os.WriteFile(out, nil, 0o644)
	case "bytes":
		os.WriteFile(out, bytes.Repeat([]byte{0xAB}, 1024), 0o644)
	case "bbolt-empty-db", "bbolt-other-db":
		// a valid bbolt database that is not an updog index (no buckets / somebody else's bucket)
		db, err := bbolt.Open(out, 0o644, nil)
		if err != nil {
			rt.Harnessf("bbolt: %v", err)
		}
		if c.Existing == "bbolt-other-db" {
			db.Update(func(tx *bbolt.Tx) error {
				b, _ := tx.CreateBucketIfNotExists([]byte("somebody-elses-data"))
				return b.Put([]byte("k"), []byte("precious"))
			})
		}
		db.Close()
	case "symlink-dangling":
		// the link points to a name that does not exist in a directory that does (a create through the link would succeed)
		os.Symlink(filepath.Join(dir, "missing-target.updog"), out)
	case "index-same-shape":
		// a valid index with the same number of rows and the same schema as what the writer is about to write, but the
		// rows in another order (so: other bitmaps). "Looks like my output already" is no licence to report success.
		rows := c16Rows(c.Rows)
		for i, j := 0, len(rows)-1; i < j; i, j = i+1, j-1 {
			rows[i], rows[j] = rows[j], rows[i]
		}
		p, _, err := ix.Build(dir, rows, ix.MemFile)
		if err != nil {
			rt.Harnessf("build: %v", err)
		}
		os.Rename(p, out)
	case "symlink-to-index":
		p, _, err := ix.Build(dir, c16Rows(5), ix.MemFile)
		if err != nil {
			rt.Harnessf("build: %v", err)
		}
		os.Rename(p, filepath.Join(dir, "real.updog"))
		os.Symlink(filepath.Join(dir, "real.updog"), out)
	case "index", "index-readonly":
		p, _, err := ix.Build(dir, c16Rows(5), ix.MemFile)
		if err != nil {
			rt.Harnessf("build: %v", err)
		}
		os.Rename(p, out)
		if c.Existing == "index-readonly" {
			os.Chmod(out, 0o444)
		}
	}
	if c.Existing == "appears" {
		return c16Appears(c, dir, out)
	}
	linkState := func() string {
		l, _ := os.Readlink(out)
		_, err := os.Lstat(filepath.Join(dir, "missing-target.updog"))
		return fmt.Sprintf("%s->%s/%v/%s", fileState(out), l, os.IsNotExist(err), fileState(filepath.Join(dir, "real.updog")))
	}
	before := fileState(out)
	if strings.HasPrefix(c.Existing, "symlink") {
		before = linkState()
	}
	failed := false
	detail := ""
	switch c.Via {
	case "flush":
		w := updog.NewIndexWriter(out)
		for _, r := range c16Rows(c.Rows) {
			w.AddRow(r)
		}
		err := w.Flush()
		failed = err != nil
		detail = fmt.Sprint(err)
		if failed {
			// trying again on the same writer must fail again and still leave the file alone
			if err2 := w.Flush(); err2 == nil {
				failed, detail = false, "a second Flush on the same writer succeeded after the first one was refused"
			}
		}
	default:
		bin := os.Getenv("VCHECK_UPDOG_BIN")
		if bin == "" {
			rt.Harnessf("VCHECK_UPDOG_BIN not set")
		}
		csv := filepath.Join(dir, "in.csv")
		var b bytes.Buffer
		b.WriteString("v,k\n")
		for i := 0; i < c.Rows; i++ {
			fmt.Fprintf(&b, "%d,%d\n", i, i%3)
		}
		os.WriteFile(csv, b.Bytes(), 0o644)
		args := []string{"create", "-o", out}
		if c.Via == "create-big" {
			args = append(args, "-b")
		}
		if c.Signal != "" {
			// the command under ptrace, interrupted (SIGINT / SIGTERM) before its k-th read of the input or file-changing
			// system call, for every k: whatever it does on its way out, the existing file stays as it is
			opt := ptk.Options{Signal: syscall.SIGINT, CountReads: true}
			if c.Signal == "term" {
				opt.Signal = syscall.SIGTERM
			}
			env := append(os.Environ(), "TMPDIR="+dir)
			argv := append(append([]string{bin}, args...), csv)
			for k := 1; k < 3000; k++ {
				r, err := ptk.RunOpt(argv, env, []string{dir + "/"}, k, filepath.Join(dir, "stdout"), opt)
				if err != nil {
					return "" // tracing is not possible here: this variant is skipped
				}
				after := fileState(out)
				if strings.HasPrefix(c.Existing, "symlink") {
					after = linkState()
				}
				if after != before {
					call := ""
					if len(r.Calls) > 0 {
						call = r.Calls[len(r.Calls)-1]
					}
					return fmt.Sprintf("the command was interrupted (SIG%s) before its call #%d (%s): afterwards the existing file (%s) has changed from %s to %s", strings.ToUpper(c.Signal), k, strings.ReplaceAll(call, dir+"/", ""), c.Existing, before, after)
				}
				if !r.Killed {
					if r.ExitCode == 0 {
						return fmt.Sprintf("writing to an existing file (%s) succeeded", c.Existing)
					}
					return ""
				}
			}
			return ""
		}
		cmd := exec.Command(bin, append(args, csv)...)
		cmd.Env = append(os.Environ(), "TMPDIR="+dir)
		o, err := cmd.CombinedOutput()
		failed = err != nil
		detail = strings.TrimSpace(string(o))
	}
	after := fileState(out)
	if strings.HasPrefix(c.Existing, "symlink") {
		after = linkState()
	}
	if !failed {
		return fmt.Sprintf("writing to an existing file (%s) succeeded (%s)", c.Existing, detail)
	}
	if before != after {
		return fmt.Sprintf("the existing file (%s) changed from %s to %s although the write failed", c.Existing, before, after)
	}
	return ""
}

// c16Appears: the output path does not exist when Flush starts; at the k-th write to any database file Flush
// opens in that directory, another actor creates the path (exclusive create, as a second writer would). If that create
// succeeds, the path exists from then on: Flush must fail and leave the other actor's file untouched. Every k is tried.
func c16Appears(c c16Case, dir, out string) string {
	marker := []byte("created by somebody else while Flush was running")
	for k := 1; ; k++ {
		os.Remove(out)
		leftovers, _ := filepath.Glob(filepath.Join(dir, "*"))
		for _, l := range leftovers {
			os.Remove(l)
		}
		n, created := 0, false
		bbolt.VerifOpenHook = func(db *bbolt.DB) {
			if filepath.Dir(db.Path()) != dir {
				return
			}
			db.VerifWrapWrite(func(orig func([]byte, int64) (int, error)) func([]byte, int64) (int, error) {
				return func(b []byte, off int64) (int, error) {
					n++
					if n == k {
						if f, err := os.OpenFile(out, os.O_CREATE|os.O_EXCL|os.O_WRONLY, 0o644); err == nil {
							f.Write(marker)
							f.Close()
							created = true
						}
					}
					return orig(b, off)
				}
			})
		}
		w := updog.NewIndexWriter(out)
		for _, r := range c16Rows(c.Rows) {
			w.AddRow(r)
		}
		err := w.Flush()
		bbolt.VerifOpenHook = nil
		if created {
			got, _ := os.ReadFile(out)
			if err == nil {
				return fmt.Sprintf("another actor created the output path at write %d of Flush, yet Flush reported success (file now holds %d bytes)", k, len(got))
			}
			if !bytes.Equal(got, marker) {
				return fmt.Sprintf("another actor created the output path at write %d of Flush; Flush failed but modified that file", k)
			}
		}
		if n < k {
			return "" // all write points tried
		}
		if k > 2000 {
			rt.Harnessf("appears: too many writes")
		}
	}
}

var c16Queries = []*model.Expr{model.Eq("k", "1"), model.Not(model.Eq("v", "3")), model.And(model.Eq("k", "0"), model.Not(model.Eq("v", "0"))), model.Or(model.Eq("v", "1"), model.Eq("v", "nope"))}

var c16Masters = map[ix.Writer][]byte{}

// c16Writer selects which writer path produced the index that the read histories run on.
var c16Writer = ix.MemFile

// c16Read replays a read-only history on a copy of a valid index and compares the file state after every step.
func c16Read(ctx *rt.Ctx, hist []string) (viol string, key string) {
	c16Master := c16Masters[c16Writer]
	if c16Master == nil {
		p, _, err := ix.Build(ctx.Scratch, c16Rows(1200), c16Writer)
		if err != nil {
			rt.Harnessf("build: %v", err)
		}
		c16Master, _ = os.ReadFile(p)
		c16Masters[c16Writer] = c16Master
		os.Remove(p)
	}
	c16Seq++
	p := filepath.Join(ctx.Scratch, fmt.Sprintf("c16-%d.updog", c16Seq))
	os.WriteFile(p, c16Master, 0o644)
	defer os.Remove(p)
	want := fileState(p)
	var idx *updog.Index
	mode := "closed"
	defer func() {
		if idx != nil {
			idx.Close()
		}
	}()
	for n, op := range hist {
		switch {
		case strings.HasPrefix(op, "open"):
			if idx != nil {
				return "", ""
			}
			opts, _ := c15Opts(op)
			x, err := updog.OpenIndex(p, opts...)
			if err != nil {
				return fmt.Sprintf("step %d %s failed: %v", n+1, op, err), ""
			}
			idx, mode = x, op
		case op == "close":
			if idx == nil {
				return "", ""
			}
			idx.Close()
			idx, mode = nil, "closed"
		case op == "schema":
			if idx == nil {
				return "", ""
			}
			idx.GetSchema()
		case strings.HasPrefix(op, "q"):
			if idx == nil {
				return "", ""
			}
			i, _ := strconv.Atoi(op[1:])
			gb := []string(nil)
			if i == 0 {
				gb = []string{"k"}
			}
			if _, err := idx.Execute(&updog.Query{Expr: c16Queries[i].Updog(), GroupBy: gb}); err != nil {
				return fmt.Sprintf("step %d query failed: %v", n+1, err), ""
			}
		}
		if got := fileState(p); got != want {
			return fmt.Sprintf("step %d %s modified the index file: %s -> %s", n+1, op, want, got), ""
		}
	}
	return "", mode + "|" + fileState(p)
}

var c16Seq int

// c16ConcScenario: two writers (different rows) flush to ONE path that does not exist yet, on two goroutines under the
// controlled scheduler (scheduling points at every file-system operation of updog, at bbolt's locks and at updog's own
// locks). The path comes into existence during one of the two calls; for the other call it "already exists": that call
// must fail and must leave the winner's file alone. Afterwards the file is the complete index of exactly one writer.
func c16ConcScenario(ctx *rt.Ctx, rows int, outcome *string) vsched.Scenario {
	seq := 0
	mk := func(tag string) []model.Row {
		var rs []model.Row
		for i := 0; i < rows; i++ {
			rs = append(rs, model.Row{"w": tag, "i": strconv.Itoa(i)})
		}
		return rs
	}
	data := [2][]model.Row{mk("A"), mk("B")}
	return func() ([]func(), func(*vsched.Result) string) {
		seq++
		dir := filepath.Join(ctx.Scratch, fmt.Sprintf("conc-%d", seq))
		os.MkdirAll(dir, 0o755)
		out := filepath.Join(dir, "out.updog")
		var errs [2]error
		var bodies []func()
		for t := 0; t < 2; t++ {
			t := t
			w := updog.NewIndexWriter(out)
			for _, r := range data[t] {
				w.AddRow(r)
			}
			bodies = append(bodies, func() { errs[t] = w.Flush() })
		}
		check := func(r *vsched.Result) string {
			defer os.RemoveAll(dir)
			ok := 0
			winner := -1
			for t, e := range errs {
				if e == nil {
					ok++
					winner = t
				}
			}
			if ok != 1 {
				return fmt.Sprintf("%d of the two Flush calls to one path succeeded (errors: %v / %v)", ok, errs[0], errs[1])
			}
			idx, err := ix.Open(out, false, nil)
			if err != nil {
				return fmt.Sprintf("writer %d's Flush succeeded, the other one failed (%v), but afterwards the file does not open: %v", winner, errs[1-winner], err)
			}
			defer idx.Close()
			if _, msg := c05Probes(model.FromRows(data[winner]), idx, true, nil); msg != "" {
				return fmt.Sprintf("writer %d's Flush succeeded, the other one failed, but the file is not writer %d's index: %s", winner, winner, msg)
			}
			*outcome = fmt.Sprintf("winner=%d", winner)
			return ""
		}
		return bodies, check
	}
}

func c16Worker(ctx *rt.Ctx, job *rt.Job) []*rt.Violation {
	if job.Name == "conc-flush" || job.Name == "replay" {
		var j e3Job
		job.Decode(&j)
		var p struct {
			Rows int `json:"rows"`
		}
		json.Unmarshal(j.Params, &p)
		var outcome string
		return e3Explore(ctx, "C16", j, c16ConcScenario(ctx, p.Rows, &outcome), func() string { return outcome })
	}
	var a struct {
		Depth  int `json:"depth"`
		Writer int `json:"writer"`
	}
	job.Decode(&a)
	c16Writer = ix.Writer(a.Writer)
	ops := []string{"open", "open-preload", "open-cache", "open-preload-cache", "q0", "q1", "q2", "q3", "schema", "close"}
	var vs []*rt.Violation
	// unmerged enumeration of all enabled histories to the depth; sharded by first two operations
	n := 0
	var rec func(h []string, openNow bool) bool
	rec = func(h []string, openNow bool) bool {
		if len(h) > 0 {
			if len(h) >= 2 || a.Depth < 2 {
				// shard on the index of the second-level prefix
			}
			ctx.Cov.Add("evaluations", 1)
			viol, _ := c16Read(ctx, h)
			if viol != "" {
				c := c16Case{Kind: "read", History: append([]string{}, h...), Writer: a.Writer}
				vs = append(vs, rt.NewViolation("C16", "read", c.sig(), c, "%s", viol))
				return false
			}
			if len(h) >= 3 {
				ctx.Cov.Add("distinct_nontrivial", 1)
			}
		}
		if len(h) == a.Depth {
			return true
		}
		for _, op := range ops {
			isOpen := strings.HasPrefix(op, "open")
			if isOpen == openNow {
				continue // open only when closed; everything else only when open
			}
			if len(h) == 1 {
				n++
				if n%job.NShards != job.Shard {
					continue
				}
			}
			nowOpen := openNow
			if isOpen {
				nowOpen = true
			} else if op == "close" {
				nowOpen = false
			}
			if !rec(append(h, op), nowOpen) {
				return false
			}
			if ctx.Expired() {
				ctx.Cov.Cap("deadline in read histories")
				return false
			}
		}
		return true
	}
	rec(nil, false)
	if job.Shard == 0 {
		ctx.Cov.Sample(1, map[string]any{"read_history": "open-preload-cache;q0;q2;schema;close;open;q1", "depth": a.Depth})
	}
	return vs
}

func c16Run(ctx *rt.Ctx) []*rt.Violation {
	var vs []*rt.Violation
	for _, ex := range []string{"empty", "index", "bytes", "index-readonly", "bbolt-empty-db", "bbolt-other-db", "symlink-dangling", "symlink-to-index", "index-same-shape", "appears"} {
		for _, rows := range []int{0, 3, 1500} {
			for _, via := range []string{"flush", "create", "create-big"} {
				if ex == "appears" && via != "flush" {
					continue // needs the in-process write hook
				}
				c := c16Case{Kind: "clobber", Existing: ex, Rows: rows, Via: via}
				ctx.Cov.Add("evaluations", 1)
				ctx.Cov.Add("distinct_nontrivial", 1)
				ctx.Cov.Add("clobber_cases", 1)
				if v := c16Clobber(ctx, c); v != "" {
					vs = append(vs, rt.NewViolation("C16", "clobber", c.sig(), c, "%s", v))
				}
			}
		}
	}
	// output names that look like temporary files, and the command interrupted at every point of its run
	for _, via := range []string{"create", "create-big"} {
		for _, name := range []string{"out.updog.tmp", "out.tmp", "out", ".out.updog.swp"} {
			for _, ex := range []string{"index", "bytes"} {
				c := c16Case{Kind: "clobber", Existing: ex, Rows: 3, Via: via, Name: name}
				ctx.Cov.Add("evaluations", 1)
				ctx.Cov.Add("distinct_nontrivial", 1)
				ctx.Cov.Add("clobber_cases", 1)
				if v := c16Clobber(ctx, c); v != "" {
					vs = append(vs, rt.NewViolation("C16", "clobber", c.sig(), c, "%s", v))
				}
			}
		}
		for _, sig := range []string{"int", "term"} {
			for _, rows := range []int{3, 1500} {
				c := c16Case{Kind: "clobber", Existing: "index", Rows: rows, Via: via, Signal: sig}
				ctx.Cov.Add("evaluations", 1)
				ctx.Cov.Add("distinct_nontrivial", 1)
				ctx.Cov.Add("clobber_cases", 1)
				if v := c16Clobber(ctx, c); v != "" {
					vs = append(vs, rt.NewViolation("C16", "clobber", c.sig(), c, "%s", v))
				}
			}
		}
	}
	ctx.Cov.Sample(2, map[string]any{"clobber": c16Case{Kind: "clobber", Existing: "index-readonly", Rows: 1500, Via: "create-big"}.sig()})
	depth := 5
	if ctx.Thorough() {
		depth = 7
	}
	var jobs []rt.Job
	for w := 0; w < 3; w++ {
		b, _ := json.Marshal(map[string]int{"depth": depth, "writer": w})
		for s := 0; s < 8; s++ {
			jobs = append(jobs, rt.Job{Name: "read", Shard: s, NShards: 8, Args: b})
		}
	}
	// two concurrent Flush calls to one fresh path: every interleaving with at most 2 (thorough: 3) preemptions
	var conc []rt.Job
	for _, rows := range []int{0, 3} {
		pb, _ := json.Marshal(map[string]int{"rows": rows})
		bound, shards := 2, 4
		if ctx.Thorough() {
			bound, shards = 3, 8
		}
		for sh := 0; sh < shards; sh++ {
			b, _ := json.Marshal(e3Job{Scenario: "conc-flush", Params: pb, Bound: bound, Shard: sh, NShards: shards})
			conc = append(conc, rt.Job{Name: "conc-flush", Shard: sh, NShards: shards, Args: b})
		}
	}
	done := make(chan []rt.JobOutcome)
	go func() { done <- rt.RunJobs(ctx, conc, rt.SpawnOpt{Race: true}) }()
	outs := rt.RunJobs(ctx, jobs, rt.SpawnOpt{})
	vs = append(vs, rt.Collect(ctx, outs, nil)...)
	vs = append(vs, rt.Collect(ctx, <-done, nil)...)
	ctx.Cov.Note("concurrent_flush", "two IndexWriters with different rows (0 and 3 rows each) Flush to one fresh path on two goroutines under the controlled scheduler, scheduling points at every file-system operation of updog (package os re-exported with points), at bbolt's locks and updog's locks; every schedule within the preemption bound: exactly one call succeeds, the other fails, and the file is the winner's complete index")
	ctx.Cov.Note("rule", fmt.Sprintf("clobber: 9 pre-existing contents (empty, valid index, a valid index with the row count and schema of the new one but other bitmaps, arbitrary bytes, read-only index, bbolt database without buckets, bbolt database with a foreign bucket, dangling symlink into an existing directory, symlink to an index) x 3 writer sizes x {IndexWriter.Flush, updog create, updog create -b}: must fail and leave SHA-256/size/mode (and link target) unchanged, also for output names that look like temporary files (out.updog.tmp, out.tmp, ...) and when `updog create` is interrupted by SIGINT / SIGTERM before every read of its input and every file-changing system call; 'appears': for every write k of Flush another actor exclusively creates the output path at that moment - if it succeeds Flush must fail and leave that file alone; read: every enabled history up to depth %d over {4 open variants, 4 queries, GetSchema, Close} on copies of valid 1200-row indexes written by each of the three writer paths: SHA-256/size/mode compared after every step; non-trivial = clobber cases and read histories of length >= 3", depth))
	return vs
}

func c16Replay(ctx *rt.Ctx, v *rt.Violation) *rt.Violation {
	var c c16Case
	if err := json.Unmarshal(v.Case, &c); err != nil {
		rt.Harnessf("case: %v", err)
	}
	if v.Kind == "schedule" {
		return e3Replay(ctx, "C16", v)
	}
	if c.Kind == "clobber" {
		if m := c16Clobber(ctx, c); m != "" {
			return rt.NewViolation("C16", "clobber", c.sig(), c, "%s", m)
		}
		return nil
	}
	c16Writer = ix.Writer(c.Writer)
	if m, _ := c16Read(ctx, c.History); m != "" {
		return rt.NewViolation("C16", "read", c.sig(), c, "%s", m)
	}
	return nil
}

func init() {
	register(&Property{ID: "C16", Level: "exploration", Run: c16Run, Worker: c16Worker, Replay: c16Replay})
}
