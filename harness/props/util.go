package props

import "os"

func removeFile(p string) { os.Remove(p) }
