package props

import (
	"bytes"
	"fmt"
	"os"
	"os/exec"
	"strconv"
	"strings"
	"syscall"
	"time"
)

func removeFile(p string) { os.Remove(p) }

// cpuTicks returns utime+stime of a process (clock ticks), -1 if it is gone.
func cpuTicks(pid int) int64 {
	b, err := os.ReadFile(fmt.Sprintf("/proc/%d/stat", pid))
	if err != nil {
		return -1
	}
	s := string(b)
	i := strings.LastIndexByte(s, ')')
	f := strings.Fields(s[i+1:])
	if len(f) < 13 {
		return -1
	}
	u, _ := strconv.ParseInt(f[11], 10, 64)
	k, _ := strconv.ParseInt(f[12], 10, 64)
	return u + k
}

// runChild runs a command that is expected to terminate on its own. A child that is still there after a generous
// grace period AND has not consumed any CPU time between two looks one second apart is blocked for good: it is
// killed and reported as hung (state-based verdict; the grace period only bounds how long we look).
func runChild(cmd *exec.Cmd) (out []byte, err error, hung bool) {
	var buf bytes.Buffer
	cmd.Stdout, cmd.Stderr = &buf, &buf
	cmd.SysProcAttr = &syscall.SysProcAttr{Pdeathsig: syscall.SIGKILL}
	if err := cmd.Start(); err != nil {
		return nil, err, false
	}
	done := make(chan error, 1)
	go func() { done <- cmd.Wait() }()
	grace := 15 * time.Second
	for {
		select {
		case err := <-done:
			return buf.Bytes(), err, false
		case <-time.After(grace):
			a := cpuTicks(cmd.Process.Pid)
			select {
			case err := <-done:
				return buf.Bytes(), err, false
			case <-time.After(time.Second):
			}
			b := cpuTicks(cmd.Process.Pid)
			if a >= 0 && a == b {
				cmd.Process.Kill()
				<-done
				return buf.Bytes(), fmt.Errorf("blocked"), true
			}
			grace = 5 * time.Second
		}
	}
}
