package props

import (
	"encoding/json"
	"fmt"
	"strings"

	"github.com/akrennmair/updog"
	"github.com/akrennmair/updog/zzverif/flk"
	"github.com/akrennmair/updog/zzverif/ix"
	"github.com/akrennmair/updog/zzverif/model"
	"github.com/akrennmair/updog/zzverif/rt"
)

// C02 — group-by == SQL GROUP BY with COUNT>0 in sorted order: bounded-exhaustive enumeration of
// datasets x expressions x ALL group-by lists up to length 6 against the brute-force model.

var c02Shapes = func() []model.Row {
	var out []model.Row
	for _, a := range []string{"", "x", "y"} {
		for _, b := range []string{"", "x", "y"} {
			for _, c := range []string{"", "x", "y", "z"} {
				r := model.Row{}
				if a != "" {
					r["a"] = a
				}
				if b != "" {
					r["b"] = b
				}
				if c != "" {
					r["c"] = c
				}
				out = append(out, r)
			}
		}
	}
	return out
}()

func c02Datasets(n int) [][]model.Row {
	var out [][]model.Row
	for l := 0; l <= n; l++ {
		idx := make([]int, l)
		for {
			rows := make([]model.Row, l)
			for i, j := range idx {
				rows[i] = c02Shapes[j]
			}
			out = append(out, rows)
			p := l - 1
			for p >= 0 {
				idx[p]++
				if idx[p] < len(c02Shapes) {
					break
				}
				idx[p] = 0
				p--
			}
			if p < 0 {
				break
			}
		}
	}
	return out
}

// lists enumerates all lists over alphabet with minLen <= length <= maxLen.
func lists(alphabet []string, minLen, maxLen int) [][]string {
	var out [][]string
	for l := minLen; l <= maxLen; l++ {
		idx := make([]int, l)
		for {
			lst := make([]string, l)
			for i, j := range idx {
				lst[i] = alphabet[j]
			}
			out = append(out, lst)
			p := l - 1
			for p >= 0 {
				idx[p]++
				if idx[p] < len(alphabet) {
					break
				}
				idx[p] = 0
				p--
			}
			if p < 0 {
				break
			}
		}
	}
	return out
}

func c02GroupLists() [][]string {
	l := lists([]string{"a", "b", "c", "u"}, 0, 4)
	return append(l, lists([]string{"a", "b"}, 5, 6)...)
}

func c02Exprs() []*model.Expr {
	ax := model.Eq("a", "x")
	return []*model.Expr{ax, model.Not(ax), model.Or(ax, model.Eq("b", "y")), model.Or(ax, model.Not(ax))}
}

// the dedicated family: >=2 sibling groups below one 3-column parent, rows lacking an inner column, 4 real columns
func c02FamilyRows() []model.Row {
	return []model.Row{
		{"a": "1", "b": "1", "c": "1", "d": "1"},
		{"a": "1", "b": "1", "c": "1", "d": "2"},
		{"a": "1", "b": "1", "c": "1", "d": "3"},
		{"a": "1", "b": "1", "c": "2", "d": "1"},
		{"a": "1", "b": "1", "c": "1"},
		{"a": "2", "b": "1", "c": "1", "d": "2"},
		{"a": "2", "b": "2", "d": "2"},
		{"a": "1", "b": "1", "c": "1", "d": "1"},
		{},
		{"a": "10", "b": "9", "c": "é", "d": ""},
		// values whose byte-wise order differs from numeric, case-insensitive or locale order
		{"a": "9", "b": "10", "c": "z", "d": "Z"},
		{"a": "1", "b": "1", "c": "Z", "d": "é"},
		{"a": "10", "b": "100", "c": "\xff", "d": "a"},
		{"a": "", "b": " ", "c": "e", "d": "A"},
		// a value that is a prefix of another one which continues with a NUL byte / a low character
		{"a": "p", "b": "z", "c": "1", "d": "1"},
		{"a": "p\x00q", "b": "c", "c": "1", "d": "1"},
		// columns whose NAME is two other names joined by a comma / a blank (a group-by list must not be identified by its
		// names glued together)
		{"a": "1", "b": "2", "a,b": "j", "a b": "l"},
		{"a,b": "k", "c": "1"},
		{"a": "p\x01", "b": "b", "c": "1", "d": "1"},
		// short and long values mixed (a comparison on a fixed-length prefix must fall back correctly)
		{"a": "zz", "b": "aaaaaaaaa", "c": "1", "d": "1"},
		{"a": "aaaaaaaaa", "b": "zz", "c": "1", "d": "1"},
		{"a": "aaaaaaaab", "b": "aaaaaaa", "c": "1", "d": "1"},
		{"a": "aaaaaaaa", "b": "aaaaaaaaz", "c": "1", "d": "1"},
		// column names that occur as values of each other / of themselves (a key derived from name and value separately
		// and combined commutatively confuses them)
		{"a": "b", "b": "a"},
		{"a": "b"},
		{"b": "a"},
		{"p": "p"},
		{"q": "q", "a": "a"},
		{"p": "q", "q": "p"},
	}
}

type c02Case struct {
	Rows    []model.Row `json:"rows"`
	Writer  int         `json:"writer"`
	Preload bool        `json:"preload"`
	Expr    *model.Expr `json:"expr"`
	GroupBy []string    `json:"group_by"`
}

func (c c02Case) sig() string {
	return fmt.Sprintf("rows=%s writer=%s preload=%v expr=%s groupby=[%s]", rowsSig(c.Rows), ix.Writer(c.Writer), c.Preload, c.Expr, strings.Join(c.GroupBy, ","))
}

func groupsString(gs []model.Group) string {
	var s []string
	for _, g := range gs {
		var f []string
		for _, x := range g.Fields {
			f = append(f, fmt.Sprintf("%s=%q", x.Column, x.Value))
		}
		s = append(s, fmt.Sprintf("(%s):%d", strings.Join(f, ","), g.Count))
	}
	return "[" + strings.Join(s, " ") + "]"
}

func sameGroups(a, b []model.Group) bool {
	if len(a) != len(b) {
		return false
	}
	for i := range a {
		if a[i].Count != b[i].Count || len(a[i].Fields) != len(b[i].Fields) {
			return false
		}
		for j := range a[i].Fields {
			if a[i].Fields[j] != b[i].Fields[j] {
				return false
			}
		}
	}
	return true
}

// compareGrouped executes one grouped query (a fresh Query value) and compares with the model.
func compareGrouped(d *model.Data, me *model.Expr, gb []string, idx *updog.Index) (msg string) {
	defer func() {
		if r := recover(); r != nil {
			msg = fmt.Sprintf("panic: %v", r)
		}
	}()
	var wantG []model.Group
	sel, werr := d.Eval(me)
	if werr == nil {
		wantG, werr = d.GroupBy(sel, gb)
	}
	res, gerr := idx.Execute(&updog.Query{Expr: me.Updog(), GroupBy: append([]string{}, gb...)})
	switch {
	case werr != nil && gerr == nil:
		return fmt.Sprintf("expected an error (%v) but got a result", werr)
	case werr != nil:
		if res != nil {
			return "error together with a result"
		}
		return ""
	case gerr != nil:
		return fmt.Sprintf("unexpected error %v", gerr)
	}
	if res.Count != sel.Count() {
		return fmt.Sprintf("total count %d, expected %d", res.Count, sel.Count())
	}
	got := ix.Groups(res.Groups)
	if len(gb) == 0 && res.Groups != nil {
		return "groups present with an empty group-by list"
	}
	if !sameGroups(got, wantG) {
		return fmt.Sprintf("groups %s, expected %s", groupsString(got), groupsString(wantG))
	}
	return ""
}

type c02Args struct {
	Rows   int  `json:"rows"`
	Family bool `json:"family"`
	Wide   bool `json:"wide"`
	// Configs: "all" = every writer x mode for every dataset; "rot" = one configuration per dataset, rotating;
	// "tenth" = all for every 10th dataset, rotating otherwise.
	Configs string `json:"configs"`
}

func c02Worker(ctx *rt.Ctx, job *rt.Job) []*rt.Violation {
	flk.Sequential(true) // single goroutine: a lock of updog or bbolt that cannot be taken now never will be (reported as a hang)
	var a c02Args
	job.Decode(&a)
	exprs := c02Exprs()
	gls := c02GroupLists()
	var dss [][]model.Row
	if a.Family {
		dss = [][]model.Row{c02FamilyRows()}
		gls = append(lists([]string{"a", "b", "c", "d"}, 0, 4), lists([]string{"a", "d"}, 5, 6)...)
		gls = append(gls, []string{"a", "b", "c", "d", "a", "d"}, []string{"d", "c", "b", "a", "d", "c"}, []string{"a", "b", "c", "d", "zz"})
		gls = append(gls, lists([]string{"a", "b", "p", "q"}, 1, 2)...)
		// names that differ from a real column only in case are unknown columns
		gls = append(gls, []string{"A"}, []string{"a", "B"}, []string{"P", "q"}, []string{"D", "d"})
		gls = append(gls, []string{"a,b"}, []string{"a", "b"}, []string{"a b"}, []string{"a,b", "c"}, []string{"a", "b,c"}, []string{"a", "b", "c"}, []string{"a,b", "a b"})
		exprs = append(exprs, model.Eq("a", "b"), model.Not(model.Eq("p", "p")))
		exprs = append(exprs, model.Eq("d", "2"), model.Not(model.Eq("c", "1")))
	} else if a.Wide {
		// a group-by column with more than 1000 distinct values (1100) next to small ones
		var rows []model.Row
		for i := 0; i < 1100; i++ {
			rows = append(rows, model.Row{"a": fmt.Sprintf("v%04d", (i*7)%1100), "b": fmt.Sprint(i % 3), "c": fmt.Sprint(i % 2)})
		}
		dss = [][]model.Row{rows}
		gls = [][]string{{"a"}, {"b", "a"}, {"a", "b"}, {"a", "a"}, {"c", "b", "a"}, {"b"}}
		exprs = []*model.Expr{model.Not(model.Eq("a", "none")), model.Eq("b", "1"), model.Not(model.Eq("c", "0"))}
	} else {
		dss = c02Datasets(a.Rows)
	}
	type cfg struct {
		w   ix.Writer
		pre bool
	}
	var all []cfg
	for _, w := range allWriters {
		for _, p := range []bool{false, true} {
			all = append(all, cfg{w, p})
		}
	}
	for di, rows := range dss {
		if di%job.NShards != job.Shard {
			continue
		}
		if ctx.Expired() {
			ctx.Cov.Cap(fmt.Sprintf("deadline at dataset %d of %d (rows<=%d)", di, len(dss), a.Rows))
			break
		}
		d := model.FromRows(rows)
		cfgs := all
		switch {
		case a.Configs == "rot" || (a.Configs == "tenth" && di%10 != 0):
			cfgs = []cfg{all[di%len(all)]}
		}
		built := map[ix.Writer]string{}
		for ci, c := range cfgs {
			path, ok := built[c.w]
			if !ok {
				p, _, err := ix.Build(ctx.Scratch, rows, c.w)
				if err != nil {
					cc := c02Case{Rows: rows, Writer: int(c.w)}
					return []*rt.Violation{rt.NewViolation("C02", "groupby", cc.sig()+" build", cc, "writer failed: %v", err)}
				}
				built[c.w], path = p, p
			}
			idx, err := ix.Open(path, c.pre, nil)
			if err != nil {
				cc := c02Case{Rows: rows, Writer: int(c.w), Preload: c.pre}
				return []*rt.Violation{rt.NewViolation("C02", "groupby", cc.sig()+" open", cc, "open failed: %v", err)}
			}
			for _, e := range exprs {
				for _, gb := range gls {
					ctx.Cov.Add("evaluations", 1)
					if msg := compareGrouped(d, e, gb, idx); msg != "" {
						idx.Close()
						cc := c02Case{Rows: rows, Writer: int(c.w), Preload: c.pre, Expr: e, GroupBy: gb}
						return []*rt.Violation{rt.NewViolation("C02", "groupby", cc.sig(), cc, "%s", msg)}
					}
					if ci == 0 && len(gb) >= 2 {
						// non-trivial: at least two groups come out
						if sel, err := d.Eval(e); err == nil {
							if g, err := d.GroupBy(sel, gb); err == nil && len(g) >= 2 {
								ctx.Cov.Add("distinct_nontrivial", 1)
								if len(gb) >= 4 {
									ctx.Cov.Add("cases_4plus_columns_2plus_groups", 1)
								}
							}
						}
					}
				}
			}
			idx.Close()
		}
		for _, p := range built {
			removeFile(p)
		}
		ctx.Cov.Add("datasets", 1)
		if a.Family || a.Wide || di == 700+job.Shard {
			ctx.Cov.Sample(1, map[string]any{"rows": rowsSig(rows), "expr": exprs[2].String(), "group_by": gls[len(gls)-1]})
		}
	}
	if job.Shard == 0 && !a.Family && !a.Wide {
		ctx.Cov.Note(fmt.Sprintf("space_rows_le_%d", a.Rows), fmt.Sprintf("%d datasets (all sequences of 0..%d rows over 36 row shapes of columns a,b,c) x %d expressions x %d group-by lists (all lists of length 0..4 over a,b,c,unknown + all of length 5..6 over a,b); configurations: %s", len(dss), a.Rows, len(exprs), len(gls), a.Configs))
	}
	return nil
}

func c02Run(ctx *rt.Ctx) []*rt.Violation {
	var jobs []rt.Job
	add := func(name string, a c02Args, shards int) {
		b, _ := json.Marshal(a)
		for s := 0; s < shards; s++ {
			jobs = append(jobs, rt.Job{Name: name, Shard: s, NShards: shards, Args: b})
		}
	}
	add("family", c02Args{Family: true, Configs: "all"}, 1)
	add("wide", c02Args{Wide: true, Configs: "all"}, 1)
	if ctx.Thorough() {
		add("n3", c02Args{Rows: 3, Configs: "rot"}, 64)
		add("n2", c02Args{Rows: 2, Configs: "all"}, 16)
	} else {
		add("n2", c02Args{Rows: 2, Configs: "tenth"}, 15)
	}
	outs := rt.RunJobs(ctx, jobs, rt.SpawnOpt{})
	vs := rt.Collect(ctx, outs, nil)
	ctx.Cov.Note("rule", "every (dataset, expression, group-by list, configuration) of the finite space is executed with a fresh Query on the real index and the full group list (tuples, counts, order, column names) compared with a brute-force GROUP BY model; non-trivial = list of >=2 columns yielding >=2 groups (counted once per dataset x expression x list)")
	ctx.Assumef("datasets beyond the small-scope product (<=3 rows over 36 shapes) the dedicated families (17 rows with awkward values; 1100 rows with a 1100-valued column) are not covered")
	return vs
}

func c02Replay(ctx *rt.Ctx, v *rt.Violation) *rt.Violation {
	var c c02Case
	if err := json.Unmarshal(v.Case, &c); err != nil {
		rt.Harnessf("case: %v", err)
	}
	d := model.FromRows(c.Rows)
	path, _, err := ix.Build(ctx.Scratch, c.Rows, ix.Writer(c.Writer))
	if err != nil {
		return rt.NewViolation("C02", "groupby", c.sig()+" build", c, "writer failed: %v", err)
	}
	defer removeFile(path)
	idx, err := ix.Open(path, c.Preload, nil)
	if err != nil {
		return rt.NewViolation("C02", "groupby", c.sig()+" open", c, "open failed: %v", err)
	}
	defer idx.Close()
	if c.Expr == nil {
		return nil
	}
	if msg := compareGrouped(d, c.Expr, c.GroupBy, idx); msg != "" {
		return rt.NewViolation("C02", "groupby", c.sig(), c, "%s", msg)
	}
	return nil
}

func init() {
	register(&Property{ID: "C02", Level: "exploration", Run: c02Run, Worker: c02Worker, Replay: c02Replay})
}
