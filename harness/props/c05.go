package props

import (
	"crypto/sha256"
	"encoding/hex"
	"encoding/json"
	"fmt"
	"go.etcd.io/bbolt"
	"os"
	"path/filepath"
	"reflect"
	"strconv"

	"github.com/akrennmair/updog"
	"github.com/akrennmair/updog/zzverif/flk"
	"github.com/akrennmair/updog/zzverif/ix"
	"github.com/akrennmair/updog/zzverif/model"
	"github.com/akrennmair/updog/zzverif/rt"
)

// C05 — flush/open round trip: ids, schema, row universe, exact row membership (through a unique id column),
// both writers and both output paths agree, reopening changes nothing.

type c05Case struct {
	Family  string      `json:"family"` // small | n | vals | reopen
	Rows    []model.Row `json:"rows,omitempty"`
	N       int         `json:"n,omitempty"`
	Writer  int         `json:"writer"`
	Preload bool        `json:"preload"`
	Probe   string      `json:"probe,omitempty"`
	History []string    `json:"history,omitempty"`
}

func (c c05Case) sig() string {
	ds := fmt.Sprintf("N=%d", c.N)
	if c.Family == "small" {
		ds = "rows=" + rowsSig(c.Rows)
	}
	s := fmt.Sprintf("family=%s %s writer=%s preload=%v", c.Family, ds, ix.Writer(c.Writer), c.Preload)
	if len(c.History) > 0 {
		s += fmt.Sprintf(" history=%v", c.History)
	}
	if c.Probe != "" {
		s += " probe=" + c.Probe
	}
	return s
}

// c05Row generates the rows of the families.
func c05Row(family string, n int) func(i int) model.Row {
	switch family {
	case "n": // unique id, a 7-valued column missing on some rows, >1000 distinct values when n is large enough
		return func(i int) model.Row {
			r := model.Row{"id": strconv.Itoa(i), "w": strconv.Itoa(i % 1500)}
			if i%4 != 1 {
				r["m"] = strconv.Itoa(i % 7)
			}
			if i%500 == 499 {
				return model.Row{"id": strconv.Itoa(i)} // sparse rows
			}
			return r
		}
	case "bigval": // values that hold for far more than 4096 rows (contiguous, alternating, and all rows), n rows
		return func(i int) model.Row {
			return model.Row{"all": "1", "par": strconv.Itoa(i % 2), "half": strconv.Itoa(i * 2 / n), "id": strconv.Itoa(i)}
		}
	case "odd": // an empty column name next to ordinary columns; values and a column name that are not valid UTF-8 and differ
		// in one invalid byte only (a schema stored through a text encoding merges or mangles them)
		return func(i int) model.Row {
			r := model.Row{"id": strconv.Itoa(i), "bin": []string{"caf\xe9", "caf\xe8", "ok", "caf\ufffd"}[i%4]}
			if i%3 == 0 {
				r[""] = "e" + strconv.Itoa(i%2)
			}
			if i%5 == 0 {
				r["caf\xe9"] = "x\xff"
			}
			if i%7 == 0 {
				r["caf\xe8"] = "x\xfe"
			}
			return r
		}
	case "k4096": // values that hold for EXACTLY 4096 and 8192 rows (and one for 5 rows): n = 4096 + 8192 + 5
		return func(i int) model.Row {
			x := "c"
			if i < 4096 {
				x = "a"
			} else if i < 4096+8192 {
				x = "b"
			}
			return model.Row{"x": x, "y": strconv.Itoa(i % 3), "id": strconv.Itoa(i)}
		}
	case "exact": // exactly n distinct (column,value) pairs in one column: totals that are exact multiples of the batch size
		return func(i int) model.Row { return model.Row{"v": strconv.Itoa(i)} }
	case "exact2": // 600 + 400 = exactly 1000 pairs spread over two columns (n must be 1200)
		return func(i int) model.Row { return model.Row{"v": strconv.Itoa(i % 600), "u": strconv.Itoa(i % 400)} }
	case "vals": // more than 1000 distinct values in two columns, no unique column; n rows
		return func(i int) model.Row {
			return model.Row{"p": "v" + strconv.Itoa(i%1201), "q": strconv.Itoa((i * 7) % 1103), "k": strconv.Itoa(i % 3)}
		}
	}
	panic("family")
}

func schemaOf(idx *updog.Index) [][]string {
	var out [][]string
	for _, c := range idx.GetSchema().Columns {
		l := []string{c.Name}
		for _, v := range c.Values {
			l = append(l, v.Value)
		}
		out = append(out, l)
	}
	return out
}

// c05Probes compares schema, universe and memberships of an open index with the model. full=false restricts
// the per-row membership probe of columns with more than 64 values to the first column of that kind.
func c05Probes(d *model.Data, idx *updog.Index, full bool, cov *rt.Coverage) (probe, msg string) {
	defer func() {
		if r := recover(); r != nil {
			probe, msg = "panic", fmt.Sprint(r)
		}
	}()
	ws := d.Schema()
	gs := schemaOf(idx)
	if !(len(ws) == 0 && len(gs) == 0) && !reflect.DeepEqual(ws, gs) {
		return "schema", fmt.Sprintf("schema %v, expected %v", trunc(gs), trunc(ws))
	}
	if cov != nil {
		cov.Add("evaluations", 1)
	}
	if len(d.Cols) == 0 {
		// nothing can be queried on an index without columns
		_, err := idx.Execute(&updog.Query{Expr: model.Eq("a", "x").Updog()})
		if err == nil {
			return "empty", "query on an index without columns succeeded"
		}
		return "", ""
	}
	bigCols := 0
	for _, cl := range ws {
		col := cl[0]
		// universe: NOT(col = value that does not occur) counts every row
		all := model.Not(model.Eq(col, "\x01absent\x01"))
		if m := compareCount(d, all, idx, all.Updog()); m != "" {
			return "universe via " + col, m
		}
		// every value's count
		for _, v := range cl[1:] {
			e := model.Eq(col, v)
			if m := compareCount(d, e, idx, e.Updog()); m != "" {
				return fmt.Sprintf("count %s=%q", col, v), m
			}
			if cov != nil {
				cov.Add("evaluations", 1)
			}
		}
		// exact row membership through the unique column
		if _, ok := d.Cols["id"]; ok && col != "id" {
			if len(cl) > 65 {
				bigCols++
				if !full && bigCols > 1 {
					continue
				}
			}
			if m := compareGrouped(d, all, []string{col, "id"}, idx); m != "" {
				return fmt.Sprintf("membership group by %s,id", col), trunc(m)
			}
			if cov != nil {
				cov.Add("evaluations", 1)
				cov.Add("membership_probes", 1)
			}
		}
		if m := compareGrouped(d, all, []string{col}, idx); m != "" {
			return "group by " + col, trunc(m)
		}
	}
	return "", ""
}

func trunc(v any) string {
	s := fmt.Sprint(v)
	if len(s) > 300 {
		return s[:300] + "…"
	}
	return s
}

func c05CheckDataset(ctx *rt.Ctx, family string, rows []model.Row, n int, full bool) *rt.Violation {
	rowf := func(i int) model.Row { return rows[i] }
	if family != "small" {
		rowf = c05Row(family, n)
	} else {
		n = len(rows)
	}
	d := model.NewData(n)
	for i := 0; i < n; i++ {
		for k, v := range rowf(i) {
			d.Add(i, k, v)
		}
	}
	full0 := d
	var firstRejected []int
	for wi, w := range allWriters {
		c := c05Case{Family: family, Rows: rows, N: n, Writer: int(w)}
		// a writer may refuse a row (AddRow returns an error): then the row counts as not added - nothing of it may show
		// up, ids keep counting over the accepted calls, and all writers must refuse the same rows
		ix.TolerateRejects = family == "odd"
		path, ids, err := ix.BuildFunc(ctx.Scratch, n, rowf, w)
		ix.TolerateRejects = false
		if err != nil {
			return rt.NewViolation("C05", "roundtrip", c.sig()+" build", c, "writer failed: %v", err)
		}
		rej := append([]int{}, ix.Rejected...)
		if wi == 0 {
			firstRejected = rej
		} else if fmt.Sprint(rej) != fmt.Sprint(firstRejected) {
			removeFile(path)
			return rt.NewViolation("C05", "roundtrip", c.sig()+" rejects", c, "writer %s refuses rows %v, writer %s refuses rows %v", allWriters[0], firstRejected, w, rej)
		}
		d = full0
		if len(rej) > 0 {
			d = model.NewData(n - len(rej))
			k := 0
			for i := 0; i < n; i++ {
				if ids[i] == ix.RejectedID {
					continue
				}
				for col, v := range rowf(i) {
					d.Add(k, col, v)
				}
				k++
			}
		}
		k := 0
		for i, id := range ids {
			if id == ix.RejectedID {
				continue
			}
			if id != uint32(k) {
				removeFile(path)
				return rt.NewViolation("C05", "roundtrip", c.sig()+" ids", c, "AddRow call #%d (accepted call #%d) returned id %d", i, k, id)
			}
			k++
		}
		for _, pre := range []bool{false, true} {
			c.Preload = pre
			idx, err := ix.Open(path, pre, nil)
			if err != nil {
				removeFile(path)
				return rt.NewViolation("C05", "roundtrip", c.sig()+" open", c, "open failed: %v", err)
			}
			probe, msg := c05Probes(d, idx, full, ctx.Cov)
			idx.Close()
			if msg != "" {
				removeFile(path)
				c.Probe = probe
				return rt.NewViolation("C05", "roundtrip", c.sig(), c, "%s", msg)
			}
		}
		removeFile(path)
	}
	return nil
}

// c05Multi: one IndexWriter written out several times (both output paths), with more rows added in between: every output
// must be the complete index of the rows added so far, and ids keep counting.
func c05Multi(ctx *rt.Ctx) *rt.Violation {
	dir := ctx.TempDir("multi")
	defer os.RemoveAll(dir)
	rowf := c05Row("n", 0)
	w := updog.NewIndexWriter(filepath.Join(dir, "flush.updog"))
	n := 0
	add := func(k int) string {
		for i := 0; i < k; i++ {
			id, err := w.AddRow(rowf(n))
			if err != nil || id != uint32(n) {
				return fmt.Sprintf("AddRow #%d returned id %d, %v", n, id, err)
			}
			n++
		}
		return ""
	}
	check := func(step, path string) *rt.Violation {
		d := model.NewData(n)
		for i := 0; i < n; i++ {
			for k, v := range rowf(i) {
				d.Add(i, k, v)
			}
		}
		c := c05Case{Family: "multi", N: n, History: []string{step}}
		for _, pre := range []bool{false, true} {
			idx, err := ix.Open(path, pre, nil)
			if err != nil {
				return rt.NewViolation("C05", "multi", c.sig()+" open", c, "output of %s does not open: %v", step, err)
			}
			probe, msg := c05Probes(d, idx, false, ctx.Cov)
			idx.Close()
			if msg != "" {
				c.Probe, c.Preload = probe, pre
				return rt.NewViolation("C05", "multi", c.sig(), c, "output of %s: %s", step, msg)
			}
		}
		return nil
	}
	toDB := func(name string) (string, string) {
		p := filepath.Join(dir, name)
		db, err := bbolt.Open(p, 0o644, nil)
		if err != nil {
			return p, err.Error()
		}
		defer db.Close()
		if err := w.WriteToBoltDatabase(db); err != nil {
			return p, err.Error()
		}
		return p, ""
	}
	if m := add(1100); m != "" {
		return rt.NewViolation("C05", "multi", "multi add", c05Case{Family: "multi"}, "%s", m)
	}
	for _, name := range []string{"db1.updog", "db2.updog"} {
		p, m := toDB(name)
		if m != "" {
			return rt.NewViolation("C05", "multi", "multi "+name, c05Case{Family: "multi"}, "WriteToBoltDatabase failed: %s", m)
		}
		if v := check("WriteToBoltDatabase("+name+")", p); v != nil {
			return v
		}
	}
	if err := w.Flush(); err != nil {
		return rt.NewViolation("C05", "multi", "multi flush", c05Case{Family: "multi"}, "Flush after WriteToBoltDatabase failed: %v", err)
	}
	if v := check("Flush after two WriteToBoltDatabase", filepath.Join(dir, "flush.updog")); v != nil {
		return v
	}
	// a second Flush onto the path that now exists must be refused and must leave the first output intact
	if err := w.Flush(); err == nil {
		return rt.NewViolation("C05", "multi", "multi flush2", c05Case{Family: "multi"}, "a second Flush onto the existing output succeeded")
	}
	if v := check("first Flush output after a refused second Flush", filepath.Join(dir, "flush.updog")); v != nil {
		return v
	}
	if m := add(50); m != "" {
		return rt.NewViolation("C05", "multi", "multi add2", c05Case{Family: "multi"}, "%s", m)
	}
	p, m := toDB("db3.updog")
	if m != "" {
		return rt.NewViolation("C05", "multi", "multi db3", c05Case{Family: "multi"}, "WriteToBoltDatabase failed: %s", m)
	}
	return check("WriteToBoltDatabase(db3) after 50 more rows", p)
}

func fileSum(p string) string {
	b, err := os.ReadFile(p)
	if err != nil {
		return "unreadable"
	}
	h := sha256.Sum256(b)
	return hex.EncodeToString(h[:8])
}

// c05Reopen: explicit-state search over open/close/probe histories of one file.
func c05Reopen(ctx *rt.Ctx, family string, n int, w ix.Writer, maxDepth int) *rt.Violation {
	rowf := c05Row(family, n)
	d := model.NewData(n)
	for i := 0; i < n; i++ {
		for k, v := range rowf(i) {
			d.Add(i, k, v)
		}
	}
	master, _, err := ix.BuildFunc(ctx.Scratch, n, rowf, w)
	if err != nil {
		rt.Harnessf("build: %v", err)
	}
	defer removeFile(master)
	mb, _ := os.ReadFile(master)
	ops := []string{"open", "open-preload", "close", "probe"}
	// play replays a history on a fresh copy of the file; returns violation text or the state key
	play := func(hist []string) (probe, viol, key string) {
		p := master + ".copy"
		os.WriteFile(p, mb, 0o644)
		defer os.Remove(p)
		var idx *updog.Index
		mode := "closed"
		defer func() {
			if idx != nil {
				idx.Close()
			}
		}()
		for n, op := range hist {
			last := n == len(hist)-1
			switch op {
			case "open", "open-preload":
				if idx != nil {
					return "", "", "" // not enabled: the file is exclusively locked by the open handle (C15/C17 territory)
				}
				var err error
				idx, err = ix.Open(p, op == "open-preload", nil)
				if err != nil {
					return op, fmt.Sprintf("step %d: %s failed: %v", n+1, op, err), ""
				}
				mode = op
			case "close":
				if idx == nil {
					return "", "", ""
				}
				if err := idx.Close(); err != nil {
					return op, fmt.Sprintf("step %d: close failed: %v", n+1, err), ""
				}
				idx, mode = nil, "closed"
			case "probe":
				if idx == nil {
					return "", "", ""
				}
				if last {
					if pr, msg := c05Probes(d, idx, false, nil); msg != "" {
						return pr, fmt.Sprintf("step %d: %s", n+1, msg), ""
					}
				}
			}
		}
		if idx != nil {
			idx.Close()
			idx = nil
		}
		return "", "", mode + "/" + fileSum(p)
	}
	seen := map[string]bool{}
	_, _, k0 := play(nil)
	seen[k0] = true
	ctx.Cov.Add("reopen_states", 1)
	frontier := [][]string{nil}
	for depth := 1; depth <= maxDepth && len(frontier) > 0; depth++ {
		var next [][]string
		for _, h := range frontier {
			for _, op := range ops {
				hist := append(append([]string{}, h...), op)
				probe, viol, key := play(hist)
				if viol == "" && key == "" {
					continue // operation not enabled in this state
				}
				ctx.Cov.Add("reopen_transitions", 1)
				ctx.Cov.Add("evaluations", 1)
				if viol != "" {
					c := c05Case{Family: family, N: n, Writer: int(w), History: hist, Probe: probe}
					return rt.NewViolation("C05", "reopen", c.sig(), c, "%s", viol)
				}
				if !seen[key] {
					seen[key] = true
					ctx.Cov.Add("reopen_states", 1)
					next = append(next, hist)
				} else if depth <= 4 {
					// also continue from merged states up to depth 4 (no reliance on the merge for short histories)
					next = append(next, hist)
				}
			}
		}
		frontier = next
	}
	return nil
}

type c05Args struct {
	Family string `json:"family"`
	N      int    `json:"n"`
	Rows   int    `json:"rows"`
	Writer int    `json:"writer"`
	Depth  int    `json:"depth"`
	Full   bool   `json:"full"`
}

func c05Worker(ctx *rt.Ctx, job *rt.Job) []*rt.Violation {
	flk.Sequential(true) // single goroutine: a lock of updog or bbolt that cannot be taken now never will be (reported as a hang)
	var a c05Args
	job.Decode(&a)
	switch a.Family {
	case "small":
		dss := append(spaceADatasets(a.Rows), shapeDatasets(spaceA2Shapes, a.Rows)...)
		for di, rows := range dss {
			if di%job.NShards != job.Shard {
				continue
			}
			// add the unique id column to every row
			withID := make([]model.Row, len(rows))
			for i, r := range rows {
				nr := model.Row{"id": strconv.Itoa(i)}
				for k, v := range r {
					nr[k] = v
				}
				withID[i] = nr
			}
			if v := c05CheckDataset(ctx, "small", withID, 0, true); v != nil {
				return []*rt.Violation{v}
			}
			// and the dataset as is (rows may be empty maps)
			if v := c05CheckDataset(ctx, "small", rows, 0, true); v != nil {
				return []*rt.Violation{v}
			}
			ctx.Cov.Add("datasets", 2)
			ctx.Cov.Add("distinct_nontrivial", 2)
			if di == 500+job.Shard {
				ctx.Cov.Sample(1, map[string]any{"family": "small", "rows": rowsSig(withID)})
			}
			if ctx.Expired() {
				ctx.Cov.Cap("deadline in family small")
				break
			}
		}
	case "multi":
		if v := c05Multi(ctx); v != nil {
			return []*rt.Violation{v}
		}
		ctx.Cov.Add("distinct_nontrivial", 1)
		ctx.Cov.Sample(1, map[string]any{"family": "multi", "history": "AddRow x1100; WriteToBoltDatabase(db1); WriteToBoltDatabase(db2); Flush(file); AddRow x50; WriteToBoltDatabase(db3)"})
	case "reopen":
		if v := c05Reopen(ctx, "n", a.N, ix.Writer(a.Writer), a.Depth); v != nil {
			return []*rt.Violation{v}
		}
		ctx.Cov.Add("distinct_nontrivial", 1)
		ctx.Cov.Sample(1, map[string]any{"family": "reopen", "n": a.N, "writer": ix.Writer(a.Writer).String(), "ops": "open, open-preload, close, probe", "depth": a.Depth})
	default:
		if v := c05CheckDataset(ctx, a.Family, nil, a.N, a.Full); v != nil {
			return []*rt.Violation{v}
		}
		ctx.Cov.Add("datasets", 1)
		ctx.Cov.Add("distinct_nontrivial", 1)
		ctx.Cov.Sample(1, map[string]any{"family": a.Family, "n": a.N, "example_row": c05Row(a.Family, a.N)(a.N / 2)})
	}
	return nil
}

func c05Run(ctx *rt.Ctx) []*rt.Violation {
	var jobs []rt.Job
	add := func(name string, a c05Args, shards int) {
		b, _ := json.Marshal(a)
		for s := 0; s < shards; s++ {
			jobs = append(jobs, rt.Job{Name: name, Shard: s, NShards: shards, Args: b})
		}
	}
	ns := []int{2500, 2001, 1002, 1001, 1000, 999, 2, 1, 0}
	if ctx.Thorough() {
		ns = append([]int{4097, 3001}, ns...)
	}
	for _, n := range ns {
		add(fmt.Sprintf("n%d", n), c05Args{Family: "n", N: n, Full: ctx.Thorough()}, 1)
	}
	for _, n := range []int{1300, 2500, 1103} {
		add(fmt.Sprintf("vals%d", n), c05Args{Family: "vals", N: n}, 1)
	}
	for _, n := range []int{3000, 2000, 1001, 1000, 999} {
		add(fmt.Sprintf("exact%d", n), c05Args{Family: "exact", N: n}, 1)
	}
	add("exact2", c05Args{Family: "exact2", N: 1200}, 1)
	add("bigval", c05Args{Family: "bigval", N: 9000}, 1)
	add("k4096", c05Args{Family: "k4096", N: 4096 + 8192 + 5}, 1)
	add("odd", c05Args{Family: "odd", N: 43, Full: true}, 1)
	add("multi", c05Args{Family: "multi"}, 1)
	depth := 5
	if ctx.Thorough() {
		depth = 7
	}
	for _, w := range []ix.Writer{ix.MemFile, ix.Big} {
		add("reopen3", c05Args{Family: "reopen", N: 3, Writer: int(w), Depth: depth}, 1)
		add("reopen1001", c05Args{Family: "reopen", N: 1001, Writer: int(w), Depth: depth - 1}, 1)
	}
	if ctx.Thorough() {
		add("small", c05Args{Family: "small", Rows: 4}, 32)
	} else {
		add("small", c05Args{Family: "small", Rows: 3}, 8)
	}
	outs := rt.RunJobs(ctx, jobs, rt.SpawnOpt{})
	vs := rt.Collect(ctx, outs, nil)
	ctx.Cov.Note("row_counts", ns)
	ctx.Cov.Note("rule", "each dataset is written by all three writer paths and opened on demand and preloaded; probes: ids returned by AddRow, schema, row universe, count of every (column,value), exact row membership (group by column,id over the unique id column), group by each column - all against the reference model; reopen histories over {open, open-preload, close, probe} explored breadth-first on copies of one file with state = (mode, file checksum); distinct_nontrivial counts datasets and reopen searches")
	ctx.Assumef("row membership is observed through the unique id column; families without it ('vals') are checked on counts and group-by per column only")
	return vs
}

func c05Replay(ctx *rt.Ctx, v *rt.Violation) *rt.Violation {
	var c c05Case
	if err := json.Unmarshal(v.Case, &c); err != nil {
		rt.Harnessf("case: %v", err)
	}
	if c.Family == "multi" {
		return c05Multi(ctx)
	}
	if c.Family == "reopen" || len(c.History) > 0 {
		return c05Reopen(ctx, "n", c.N, ix.Writer(c.Writer), len(c.History))
	}
	return c05CheckDataset(ctx, c.Family, c.Rows, c.N, true)
}

func init() {
	register(&Property{ID: "C05", Level: "exploration", Run: c05Run, Worker: c05Worker, Replay: c05Replay})
}
