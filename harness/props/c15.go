package props

import (
	"bytes"
	"encoding/json"
	"fmt"
	"os"
	"path/filepath"
	"runtime"
	"runtime/debug"
	"strings"

	"github.com/akrennmair/updog"
	"github.com/akrennmair/updog/zzverif/flk"
	"github.com/akrennmair/updog/zzverif/ix"
	"github.com/akrennmair/updog/zzverif/model"
	"github.com/akrennmair/updog/zzverif/rt"
	"go.etcd.io/bbolt"
)

// C15 — opening fails cleanly and always releases the file: enumeration of structurally valid bbolt files
// derived from a valid index by damaging its parts, x open options, x open/close histories.

func c15Rows() []model.Row {
	return []model.Row{{"a": "x", "b": "1"}, {"a": "y", "b": "1"}, {"a": "x"}}
}

// part names: "bucket", "S", "I", "V0".."Vn" (value keys in key order)
type c15Damage struct {
	Part string `json:"part"`
	Kind string `json:"kind"` // removed | empty | trunc | flip | garbage | extend
	Arg  int    `json:"arg,omitempty"`
}

func (d c15Damage) String() string {
	if d.Kind == "trunc" || d.Kind == "flip" {
		return fmt.Sprintf("%s:%s@%d", d.Part, d.Kind, d.Arg)
	}
	return d.Part + ":" + d.Kind
}

type c15Case struct {
	File    string      `json:"file"` // "index" | "big-index" | "nonexistent" | "zero-bytes" | "not-bbolt" | "dangling-symlink"
	Damages []c15Damage `json:"damages,omitempty"`
	History []string    `json:"history"` // open | open-preload | open-cache | open-preload-cache | close | close2 | probe
	// Spell: how the path is written in the OpenIndex calls: "" canonical absolute, "dot" dir/./file, "rel" relative to the
	// working directory, "dotdot" dir/sub/../file
	Spell string `json:"spell,omitempty"`
}

func (c c15Case) sig() string {
	var d []string
	for _, x := range c.Damages {
		d = append(d, x.String())
	}
	sp := ""
	if c.Spell != "" {
		sp = " path-spelling=" + c.Spell
	}
	return fmt.Sprintf("file=%s%s damages=[%s] history=%s", c.File, sp, strings.Join(d, ","), strings.Join(c.History, ";"))
}

type c15Master struct {
	bytes []byte
	vkeys [][]byte
	vals  map[string][]byte
}

var c15M *c15Master

// c15Big: a valid index with 400 bitmaps; the damages "V*" / "V/2" / "Vlast" hit all of them, every second one, the last one
// (a loader that handles one bad bitmap may still mishandle hundreds of them).
var c15Big struct {
	bytes []byte
	vkeys [][]byte
}

func c15BigInit(ctx *rt.Ctx) {
	if c15Big.bytes != nil {
		return
	}
	var rows []model.Row
	for i := 0; i < 400; i++ {
		rows = append(rows, model.Row{"v": fmt.Sprintf("v%03d", i)})
	}
	p, _, err := ix.Build(ctx.Scratch, rows, ix.MemFile)
	if err != nil {
		rt.Harnessf("build: %v", err)
	}
	c15Big.bytes, _ = os.ReadFile(p)
	db, err := bbolt.Open(p, 0o644, nil)
	if err != nil {
		rt.Harnessf("open big master: %v", err)
	}
	db.View(func(tx *bbolt.Tx) error {
		return tx.Bucket([]byte("data")).ForEach(func(k, v []byte) error {
			if k[0] == 'V' {
				c15Big.vkeys = append(c15Big.vkeys, append([]byte{}, k...))
			}
			return nil
		})
	})
	db.Close()
	os.Remove(p)
}

func c15Init(ctx *rt.Ctx) *c15Master {
	if c15M != nil {
		return c15M
	}
	p, _, err := ix.Build(ctx.Scratch, c15Rows(), ix.MemFile)
	if err != nil {
		rt.Harnessf("build: %v", err)
	}
	m := &c15Master{vals: map[string][]byte{}}
	m.bytes, _ = os.ReadFile(p)
	db, err := bbolt.Open(p, 0o644, nil)
	if err != nil {
		rt.Harnessf("open master: %v", err)
	}
	db.View(func(tx *bbolt.Tx) error {
		return tx.Bucket([]byte("data")).ForEach(func(k, v []byte) error {
			m.vals[string(k)] = append([]byte{}, v...)
			if k[0] == 'V' {
				m.vkeys = append(m.vkeys, append([]byte{}, k...))
			}
			return nil
		})
	})
	db.Close()
	os.Remove(p)
	c15M = m
	return m
}

func (m *c15Master) key(part string) []byte {
	switch part {
	case "S", "I":
		return []byte(part)
	}
	var i int
	fmt.Sscanf(part, "V%d", &i)
	return m.vkeys[i]
}

// c15Make produces the damaged file using bbolt's own API, so that it stays a structurally valid bbolt file.
func c15Make(ctx *rt.Ctx, c c15Case, path string) {
	m := c15Init(ctx)
	switch c.File {
	case "nonexistent":
		return
	case "dangling-symlink":
		os.Symlink(path+".target-that-does-not-exist", path)
		return
	case "zero-bytes":
		os.WriteFile(path, nil, 0o644)
		return
	case "not-bbolt":
		os.WriteFile(path, bytes.Repeat([]byte{0xAB}, 1024), 0o644)
		return
	}
	if c.File == "big-index" {
		c15BigInit(ctx)
		os.WriteFile(path, c15Big.bytes, 0o644)
		db, err := bbolt.Open(path, 0o644, nil)
		if err != nil {
			rt.Harnessf("damage: %v", err)
		}
		err = db.Update(func(tx *bbolt.Tx) error {
			b := tx.Bucket([]byte("data"))
			for _, d := range c.Damages {
				for i, k := range c15Big.vkeys {
					if d.Part == "V*" || (d.Part == "V/2" && i%2 == 1) || (d.Part == "Vlast" && i == len(c15Big.vkeys)-1) {
						if err := b.Put(k, bytes.Repeat([]byte{0xDE, 0xAD, 0xBE, 0xEF}, 5)); err != nil {
							return err
						}
					}
				}
			}
			return nil
		})
		if err != nil {
			rt.Harnessf("damage: %v", err)
		}
		db.Close()
		return
	}
	os.WriteFile(path, m.bytes, 0o644)
	if len(c.Damages) == 0 {
		return
	}
	db, err := bbolt.Open(path, 0o644, nil)
	if err != nil {
		rt.Harnessf("damage: %v", err)
	}
	err = db.Update(func(tx *bbolt.Tx) error {
		for _, d := range c.Damages {
			if d.Part == "bucket" {
				if d.Kind == "removed" {
					if err := tx.DeleteBucket([]byte("data")); err != nil {
						return err
					}
				}
				continue
			}
			b := tx.Bucket([]byte("data"))
			if b == nil {
				continue
			}
			k := m.key(d.Part)
			v := append([]byte{}, m.vals[string(k)]...)
			switch d.Kind {
			case "removed":
				if err := b.Delete(k); err != nil {
					return err
				}
				continue
			case "empty":
				v = []byte{}
			case "trunc":
				v = v[:d.Arg]
			case "flip":
				v[d.Arg] ^= 0xFF
			case "garbage":
				v = bytes.Repeat([]byte{0xDE, 0xAD, 0xBE, 0xEF}, 5)
			case "extend":
				v = append(v, 0, 0, 0, 1)
			}
			if err := b.Put(k, v); err != nil {
				return err
			}
		}
		return nil
	})
	if err != nil {
		rt.Harnessf("damage: %v", err)
	}
	db.Close()
}

// mustError: does the property list this damage as an incompleteness that opening (with these options) must reject?
func c15MustError(c c15Case, preload bool) string {
	switch c.File {
	case "nonexistent", "dangling-symlink":
		return "the path does not exist"
	case "zero-bytes", "not-bbolt":
		return "" // not a structurally valid bbolt file; only no-panic / released / not hanging are required
	}
	for _, d := range c.Damages {
		switch {
		case c.File == "big-index":
			if preload {
				return "undecodable bitmap(s) while preloading"
			}
		case d.Part == "bucket" && d.Kind == "removed":
			return "no data bucket"
		case d.Part == "S" && (d.Kind == "removed" || d.Kind == "empty" || d.Kind == "trunc" || d.Kind == "garbage"):
			return "missing or undecodable schema"
		case d.Part == "I" && (d.Kind == "removed" || d.Kind == "empty" || d.Kind == "trunc" || d.Kind == "extend" || d.Kind == "garbage"):
			return "missing or malformed row counter"
		case strings.HasPrefix(d.Part, "V") && preload && (d.Kind == "empty" || d.Kind == "trunc" || d.Kind == "garbage"):
			return "undecodable bitmap while preloading"
		}
	}
	return ""
}

func c15Opts(op string) (opts []updog.IndexOption, preload bool) {
	if strings.Contains(op, "preload") {
		opts = append(opts, updog.WithPreloadedData())
		preload = true
	}
	if strings.Contains(op, "cache") {
		opts = append(opts, updog.WithCache(updog.NewLRUCache(10000)))
	}
	return
}

// c15Play makes the file and runs the history; returns the violation text (or "") and an outcome class.
func c15Play(ctx *rt.Ctx, c c15Case) (viol string, outcome string) {
	c15Seq++
	path := filepath.Join(ctx.Scratch, fmt.Sprintf("c15-%d.updog", c15Seq))
	c15Make(ctx, c, path)
	defer os.Remove(path)
	opath := path // the spelling used in the OpenIndex calls
	switch c.Spell {
	case "dot":
		opath = filepath.Dir(path) + "/./" + filepath.Base(path)
	case "dotdot":
		os.MkdirAll(filepath.Join(filepath.Dir(path), "sub"), 0o755)
		opath = filepath.Dir(path) + "/sub/../" + filepath.Base(path)
	case "rel":
		if wd, err := os.Getwd(); err == nil {
			if r, err := filepath.Rel(wd, path); err == nil {
				opath = r
			}
		}
	}
	flk.Sequential(true)
	defer flk.Sequential(false)
	old := debug.SetGCPercent(-1)
	defer debug.SetGCPercent(old)
	var idx *updog.Index
	defer func() {
		if idx != nil {
			func() { defer func() { recover() }(); idx.Close() }()
		}
	}()
	var closed *updog.Index
	for n, op := range c.History {
		var v string
		func() {
			defer func() {
				if r := recover(); r != nil {
					if wb, ok := r.(flk.WouldBlock); ok {
						v = fmt.Sprintf("step %d %s hangs: %v", n+1, op, wb)
					} else if e, ok := r.(error); ok && strings.Contains(e.Error(), "would block forever") {
						v = fmt.Sprintf("step %d %s hangs: %v", n+1, op, e)
					} else {
						v = fmt.Sprintf("step %d %s panicked: %v", n+1, op, r)
					}
				}
			}()
			switch {
			case strings.HasPrefix(op, "open"):
				if idx != nil {
					return // not enabled: a second open while the first handle is live is expected to wait (exclusive lock)
				}
				opts, preload := c15Opts(op)
				x, err := updog.OpenIndex(opath, opts...)
				outcome += fmt.Sprintf("%s:%v;", op, err == nil)
				if err != nil {
					if x != nil {
						v = fmt.Sprintf("step %d %s returned an error together with an index", n+1, op)
						return
					}
					if (c.File == "index" || c.File == "big-index") && len(c.Damages) == 0 {
						v = fmt.Sprintf("step %d %s of a valid index failed: %v", n+1, op, err)
						return
					}
					if c.File != "dangling-symlink" && !flk.Free(path) {
						v = fmt.Sprintf("step %d %s failed (%v) but the file is still locked: the next open would block forever", n+1, op, err)
						return
					}
					if c.File == "nonexistent" {
						if _, serr := os.Stat(path); serr == nil {
							v = fmt.Sprintf("step %d %s of a nonexistent path created it", n+1, op)
						}
					}
					if c.File == "dangling-symlink" {
						if _, serr := os.Stat(path + ".target-that-does-not-exist"); serr == nil {
							os.Remove(path + ".target-that-does-not-exist")
							v = fmt.Sprintf("step %d %s of a dangling symbolic link created the file it points to", n+1, op)
						}
					}
					return
				}
				if why := c15MustError(c, preload); why != "" {
					x.Close()
					v = fmt.Sprintf("step %d %s succeeded although the file is not a complete index (%s)", n+1, op, why)
					return
				}
				idx = x
			case op == "close":
				if idx == nil {
					return
				}
				err := idx.Close()
				closed, idx = idx, nil
				if err != nil {
					v = fmt.Sprintf("step %d close failed: %v", n+1, err)
					return
				}
				if !flk.Free(path) {
					v = fmt.Sprintf("step %d after Close the file is still locked", n+1)
				}
			case op == "close2", op == "close3":
				if closed == nil {
					return
				}
				if err := closed.Close(); err != nil {
					v = fmt.Sprintf("step %d repeated Close returned %v", n+1, err)
				}
			case op == "gc":
				// two collections between use and Close (what a pool of per-index helpers does not survive)
				runtime.GC()
				runtime.GC()
			case op == "probe":
				if idx == nil {
					return
				}
				// the property is about opening and releasing; queries are only probed on the intact index
				// (what a damaged-but-accepted file answers is outside C15; crash-produced files are C06)
				idx.GetSchema()
				if c.File == "index" && len(c.Damages) == 0 {
					res, err := idx.Execute(&updog.Query{Expr: model.Not(model.Eq("a", "x")).Updog(), GroupBy: []string{"a"}})
					if err != nil || res.Count != 1 {
						v = fmt.Sprintf("step %d probe of the valid index returned %v, %v", n+1, res, err)
					}
				}
			}
		}()
		if v != "" {
			return v, outcome
		}
	}
	return "", outcome
}

var c15Seq int

func c15Histories(thorough bool) [][]string {
	opens := []string{"open", "open-preload", "open-cache", "open-preload-cache"}
	var hs [][]string
	for _, o1 := range opens {
		for _, o2 := range opens {
			hs = append(hs, []string{o1, "probe", "close", "close2", o2, "probe", "close"})
			if o1 == o2 {
				hs = append(hs, []string{o1, "close", "close2", "close3", o2, "probe", "close", "close2", "close3"})
				hs = append(hs, []string{o1, "probe", "gc", "close", o2, "probe", "probe", "gc", "probe", "close"})
			}
			if thorough {
				hs = append(hs, []string{o1, o2, "close", o1, "close", "close2", o2})
			}
		}
	}
	return hs
}

func c15DamageSets(ctx *rt.Ctx, thorough bool) [][]c15Damage {
	m := c15Init(ctx)
	parts := []string{"S", "I"}
	for i := range m.vkeys {
		parts = append(parts, fmt.Sprintf("V%d", i))
	}
	var sets [][]c15Damage
	sets = append(sets, nil) // intact
	sets = append(sets, []c15Damage{{Part: "bucket", Kind: "removed"}})
	// coarse damages: full product over parts (each part: intact | removed | empty | garbage)
	coarse := []string{"", "removed", "empty", "garbage"}
	idx := make([]int, len(parts))
	for {
		var ds []c15Damage
		for i, k := range idx {
			if k > 0 {
				ds = append(ds, c15Damage{Part: parts[i], Kind: coarse[k]})
			}
		}
		if len(ds) > 0 {
			sets = append(sets, ds)
		}
		p := len(idx) - 1
		for p >= 0 {
			idx[p]++
			if idx[p] < len(coarse) {
				break
			}
			idx[p] = 0
			p--
		}
		if p < 0 {
			break
		}
	}
	// byte-level damages: one part at a time
	for _, part := range parts {
		v := m.vals[string(m.key(part))]
		for l := 1; l < len(v); l++ {
			sets = append(sets, []c15Damage{{Part: part, Kind: "trunc", Arg: l}})
		}
		if part == "I" {
			sets = append(sets, []c15Damage{{Part: part, Kind: "extend"}})
		}
		if thorough {
			for o := 0; o < len(v); o++ {
				sets = append(sets, []c15Damage{{Part: part, Kind: "flip", Arg: o}})
			}
		}
	}
	return sets
}

func c15Worker(ctx *rt.Ctx, job *rt.Job) []*rt.Violation {
	sets := c15DamageSets(ctx, ctx.Thorough())
	hs := c15Histories(ctx.Thorough())
	var cases []c15Case
	for _, f := range []string{"nonexistent", "dangling-symlink", "zero-bytes", "not-bbolt"} {
		for _, h := range hs {
			cases = append(cases, c15Case{File: f, History: h})
		}
	}
	for _, ds := range sets {
		for _, h := range hs {
			cases = append(cases, c15Case{File: "index", Damages: ds, History: h})
		}
	}
	// a 400-bitmap index: intact, and with all / every second / the last bitmap undecodable
	for _, part := range []string{"", "V*", "V/2", "Vlast"} {
		for _, h := range hs {
			c := c15Case{File: "big-index", History: h}
			if part != "" {
				c.Damages = []c15Damage{{Part: part, Kind: "garbage"}}
			}
			cases = append(cases, c)
		}
	}
	// the path written in other ways than the canonical absolute one (what is registered under one spelling must be
	// released under the same one): the intact index and three rejected files
	for _, sp := range []string{"dot", "dotdot", "rel"} {
		for _, ds := range [][]c15Damage{nil, {{Part: "S", Kind: "removed"}}, {{Part: "I", Kind: "garbage"}}, {{Part: "V0", Kind: "garbage"}}} {
			for _, h := range hs {
				cases = append(cases, c15Case{File: "index", Damages: ds, History: h, Spell: sp})
			}
		}
	}
	firstBy := map[string]bool{}
	var vs []*rt.Violation
	for i, c := range cases {
		if i%job.NShards != job.Shard {
			continue
		}
		viol, outcome := c15Play(ctx, c)
		ctx.Cov.Add("evaluations", 1)
		ctx.Cov.SetAdd("outcomes", outcome)
		if len(c.Damages) > 0 || c.File != "index" || c.Spell != "" {
			ctx.Cov.Add("distinct_nontrivial", 1)
		}
		if viol != "" {
			// keep the first (simplest) case per kind of failure
			kind := viol
			if j := strings.Index(viol, " "); j > 0 {
				kind = strings.Join(strings.Fields(viol)[2:], " ")
			}
			if len(kind) > 60 {
				kind = kind[:60]
			}
			if !firstBy[kind] {
				firstBy[kind] = true
				vs = append(vs, rt.NewViolation("C15", "open", c.sig(), c, "%s", viol))
			}
			if len(vs) >= 6 {
				break
			}
		}
		if i%997 == 0 {
			ctx.Cov.Sample(1, map[string]any{"case": c.sig(), "outcome": outcome})
		}
	}
	if job.Shard == 0 {
		ctx.Cov.Note("space", fmt.Sprintf("%d files (nonexistent, 0 bytes, non-bbolt bytes, and %d damaged variants of a valid 3-row index: bucket removed; full product of {intact,removed,empty,garbage} over schema, row counter and every bitmap; every truncation of every part; %s; a 400-bitmap index intact and with all / every second / the last bitmap undecodable; the intact and three rejected files addressed through non-canonical path spellings dir/./f, dir/sub/../f and a relative path) x %d open/close histories over options {on-demand, preloaded, cached, preloaded+cached}", 3+len(sets), len(sets), map[bool]string{true: "every single-byte flip of every part", false: "byte flips only in the thorough tier"}[ctx.Thorough()], len(hs)))
	}
	return vs
}

func c15Run(ctx *rt.Ctx) []*rt.Violation {
	var jobs []rt.Job
	for s := 0; s < 16; s++ {
		jobs = append(jobs, rt.Job{Name: "damage", Shard: s, NShards: 16})
	}
	outs := rt.RunJobs(ctx, jobs, rt.SpawnOpt{})
	vs := rt.Collect(ctx, outs, nil)
	ctx.Cov.Note("rule", "every (file, history) is executed: OpenIndex must not panic or wait for a lock, must return an error for each listed incompleteness, must not create a nonexistent path; after every failed open and after Close a non-blocking exclusive flock probe must succeed; second Close returns nil; a valid file always opens; non-trivial = the file is not the intact index")
	ctx.Cov.Add("distinct_outcomes", int64(ctx.Cov.SetLen("outcomes")))
	ctx.Assumef("'file released' is decided by an immediate flock(LOCK_EX|LOCK_NB) probe with GC disabled, not by a timeout")
	ctx.Assumef("for damages the property does not list (e.g. a byte flip that still decodes) only no-panic, no-hang and release are required")
	return vs
}

func c15Replay(ctx *rt.Ctx, v *rt.Violation) *rt.Violation {
	var c c15Case
	if err := json.Unmarshal(v.Case, &c); err != nil {
		rt.Harnessf("case: %v", err)
	}
	if viol, _ := c15Play(ctx, c); viol != "" {
		return rt.NewViolation("C15", "open", c.sig(), c, "%s", viol)
	}
	return nil
}

func init() {
	register(&Property{ID: "C15", Level: "fault_enumeration", Run: c15Run, Worker: c15Worker, Replay: c15Replay})
}
