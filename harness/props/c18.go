package props

import (
	"encoding/json"
	"fmt"
	"os"
	"path/filepath"
	"sort"
	"strconv"
	"strings"

	"github.com/akrennmair/updog"
	"github.com/akrennmair/updog/zzverif/ix"
	"github.com/akrennmair/updog/zzverif/model"
	"github.com/akrennmair/updog/zzverif/rt"
	"github.com/akrennmair/updog/zzverif/vsched"
	"go.etcd.io/bbolt"
)

// C18 — concurrent AddRow: all interleavings (at synchronisation-operation granularity) of k goroutines
// adding r rows each to a real writer, race detector live in every schedule; afterwards the writer is
// flushed and the index compared with the one a sequential insertion in id order produces.

type c18Params struct {
	Writer int `json:"writer"` // ix.MemFile or ix.Big
	K      int `json:"k"`
	R      int `json:"r"`
	Pre    int `json:"pre"` // rows inserted before the concurrent phase
	// Separate: every thread has its OWN writer (nothing may be shared between two writers either)
	Separate bool `json:"separate,omitempty"`
}

type rowAdder interface {
	AddRow(map[string]string) (uint32, error)
	Flush() error
}

type c18World struct {
	w      rowAdder
	path   string
	dbs    []*bbolt.DB
	files  []string
	preIDs []uint32
}

func (w *c18World) cleanup() {
	ix.Abort(w.w)
	for _, d := range w.dbs {
		d.Close()
	}
	for _, f := range w.files {
		os.Remove(f)
	}
}

var c18Seq int

func newC18World(dir string, p c18Params) *c18World {
	c18Seq++
	w := &c18World{path: filepath.Join(dir, fmt.Sprintf("c18-%d.updog", c18Seq))}
	w.files = append(w.files, w.path)
	if ix.Writer(p.Writer) == ix.Big {
		tmp := w.path + ".tmp"
		w.files = append(w.files, tmp)
		tdb, err := bbolt.Open(tmp, 0o600, &bbolt.Options{NoSync: true})
		if err != nil {
			rt.Harnessf("temp db: %v", err)
		}
		db, err := bbolt.Open(w.path, 0o644, &bbolt.Options{NoSync: true})
		if err != nil {
			rt.Harnessf("out db: %v", err)
		}
		w.dbs = []*bbolt.DB{db, tdb}
		bw, err := updog.NewBigIndexWriter(db, tdb)
		if err != nil {
			rt.Harnessf("big writer: %v", err)
		}
		w.w = bw
	} else {
		w.w = updog.NewIndexWriter(w.path)
	}
	for i := 0; i < p.Pre; i++ {
		id, err := w.w.AddRow(c18PreRow(i))
		if err != nil {
			rt.Harnessf("pre-insert: %v", err)
		}
		w.preIDs = append(w.preIDs, id)
	}
	return w
}

func c18PreRow(i int) model.Row {
	r := model.Row{"id": "pre" + strconv.Itoa(i), "c": "shared", "d": "pre"}
	if i < 100 {
		r["cold"] = "x" // a value of the first rows only, which the concurrent rows bring back (a writer that tidies up
		// values it has not seen for a while must not do so while they are being added to again)
	}
	return r
}

// the unique tag is longer than any fixed-size key buffer somebody might introduce and differs only at its end
var c18LongTag = strings.Repeat("tag-", 20)

// c18Epoch numbers the executions of a worker process. Every row carries one column whose NAME and value are new in
// each execution: whatever the code under test keeps in process-wide tables (interned strings, memoised keys) is then
// cold in every explored schedule, not only in the very first execution of the process.
var c18Epoch int

// c18K is the number of threads of the scenario being explored (c18Row needs it).
var c18K int

// refill empties m and fills it from src: every goroutine passes ONE map object to all its AddRow calls, refilled in
// between (a writer that keeps the caller's map instead of its content sees later rows in earlier ones).
func refill(m, src model.Row) model.Row {
	for k := range m {
		delete(m, k)
	}
	for k, v := range src {
		m[k] = v
	}
	return m
}

func c18Row(t, j int) model.Row {
	e := strconv.Itoa(c18Epoch)
	r := model.Row{"id": fmt.Sprintf("%st%d_%d", c18LongTag, t, j), "c": "shared", "d": "thread" + strconv.Itoa(t), "e" + e: "v" + e}
	if j > 0 || (c18K >= 3 && t == c18K-1) {
		r["cold"] = "x" // only the later rows of a thread (and the last of three or more threads) bring the value of the very first rows back
	}
	return r
}

type c18Obs struct {
	ids  [][]uint32
	errs []error
}

func c18Scenario(ctx *rt.Ctx, p c18Params, lastOutcome *string) vsched.Scenario {
	if p.Separate {
		return c18Separate(ctx, p, lastOutcome)
	}
	return func() ([]func(), func(*vsched.Result) string) {
		c18Epoch++
		c18K = p.K
		w := newC18World(ctx.Scratch, p)
		obs := &c18Obs{ids: make([][]uint32, p.K), errs: make([]error, p.K)}
		var bodies []func()
		for t := 0; t < p.K; t++ {
			t := t
			bodies = append(bodies, func() {
				row := model.Row{}
				for j := 0; j < p.R; j++ {
					id, err := w.w.AddRow(refill(row, c18Row(t, j)))
					if err != nil {
						obs.errs[t] = err
						return
					}
					obs.ids[t] = append(obs.ids[t], id)
				}
			})
		}
		check := func(r *vsched.Result) string {
			defer w.cleanup()
			return c18Check(w, p, obs, lastOutcome)
		}
		return bodies, check
	}
}

// c18Separate: k threads, each adding r rows to its own writer at the same time; afterwards every writer is checked
// on its own (ids 0..r-1, flushed index equals the sequential model of its rows).
func c18Separate(ctx *rt.Ctx, p c18Params, lastOutcome *string) vsched.Scenario {
	return func() ([]func(), func(*vsched.Result) string) {
		c18Epoch++
		c18K = p.K
		ws := make([]*c18World, p.K)
		obs := make([]*c18Obs, p.K)
		var bodies []func()
		for t := 0; t < p.K; t++ {
			t := t
			ws[t] = newC18World(ctx.Scratch, c18Params{Writer: p.Writer})
			obs[t] = &c18Obs{ids: make([][]uint32, 1), errs: make([]error, 1)}
			bodies = append(bodies, func() {
				row := model.Row{}
				for j := 0; j < p.R; j++ {
					id, err := ws[t].w.AddRow(refill(row, c18Row(t, j)))
					if err != nil {
						obs[t].errs[0] = err
						return
					}
					obs[t].ids[0] = append(obs[t].ids[0], id)
				}
			})
		}
		check := func(r *vsched.Result) string {
			defer func() {
				for _, w := range ws {
					w.cleanup()
				}
			}()
			for t := 0; t < p.K; t++ {
				// re-label: the single thread of writer t is "thread t" of c18Row
				var out string
				one := &c18Obs{ids: make([][]uint32, t+1), errs: make([]error, t+1)}
				one.ids[t], one.errs[t] = obs[t].ids[0], obs[t].errs[0]
				if m := c18CheckOne(ws[t], t, p.R, one, &out); m != "" {
					return fmt.Sprintf("writer of thread %d: %s", t, m)
				}
			}
			*lastOutcome = "separate"
			return ""
		}
		return bodies, check
	}
}

// c18CheckOne checks a writer that received the rows of thread t only.
func c18CheckOne(w *c18World, t, r int, obs *c18Obs, outcome *string) string {
	if obs.errs[t] != nil {
		return fmt.Sprintf("AddRow returned an error: %v", obs.errs[t])
	}
	if len(obs.ids[t]) != r {
		return fmt.Sprintf("%d of %d AddRow calls completed", len(obs.ids[t]), r)
	}
	rows := make([]model.Row, r)
	for j, id := range obs.ids[t] {
		if int(id) != j {
			return fmt.Sprintf("AddRow #%d returned id %d", j, id)
		}
		rows[j] = c18Row(t, j)
	}
	if err := w.w.Flush(); err != nil {
		return fmt.Sprintf("Flush failed: %v", err)
	}
	for _, d := range w.dbs {
		d.Close()
	}
	w.dbs = nil
	idx, err := ix.Open(w.path, false, nil)
	if err != nil {
		return fmt.Sprintf("cannot open the flushed index: %v", err)
	}
	defer idx.Close()
	if probe, msg := c05Probes(model.FromRows(rows), idx, true, nil); msg != "" {
		return fmt.Sprintf("flushed index differs from the rows added to this writer: %s: %s", probe, msg)
	}
	return ""
}

func c18Check(w *c18World, p c18Params, obs *c18Obs, outcome *string) string {
	n := p.Pre + p.K*p.R
	byID := map[uint32]model.Row{}
	for i, id := range w.preIDs {
		byID[id] = c18PreRow(i)
	}
	order := ""
	for t := 0; t < p.K; t++ {
		if obs.errs[t] != nil {
			return fmt.Sprintf("AddRow returned an error in thread %d: %v", t, obs.errs[t])
		}
		if len(obs.ids[t]) != p.R {
			return fmt.Sprintf("thread %d completed %d of %d AddRow calls", t, len(obs.ids[t]), p.R)
		}
		for j, id := range obs.ids[t] {
			if _, dup := byID[id]; dup {
				return fmt.Sprintf("row id %d was returned twice", id)
			}
			byID[id] = c18Row(t, j)
		}
	}
	var ids []int
	for id := range byID {
		ids = append(ids, int(id))
	}
	sort.Ints(ids)
	for i, id := range ids {
		if id != i {
			return fmt.Sprintf("returned ids are %v, expected exactly 0..%d", ids, n-1)
		}
	}
	for _, id := range ids[p.Pre:] {
		order += byID[uint32(id)]["id"] + ","
	}
	*outcome = order
	if err := w.w.Flush(); err != nil {
		return fmt.Sprintf("Flush failed: %v", err)
	}
	for _, d := range w.dbs {
		d.Close()
	}
	w.dbs = nil
	idx, err := ix.Open(w.path, false, nil)
	if err != nil {
		return fmt.Sprintf("cannot open the flushed index: %v", err)
	}
	defer idx.Close()
	rows := make([]model.Row, n)
	for i := range rows {
		rows[i] = byID[uint32(i)]
	}
	d := model.FromRows(rows)
	if p.Pre == 0 {
		if probe, msg := c05Probes(d, idx, true, nil); msg != "" {
			return fmt.Sprintf("flushed index differs from sequential insertion in id order: %s: %s", probe, msg)
		}
		return ""
	}
	// light probes when many rows were pre-inserted
	all := model.Not(model.Eq("id", "\x01none"))
	if m := compareCount(d, all, idx, all.Updog()); m != "" {
		return "row universe: " + m
	}
	for t := 0; t < p.K; t++ {
		for j := 0; j < p.R; j++ {
			r := c18Row(t, j)
			for _, e := range []*model.Expr{model.Eq("id", r["id"]), model.And(model.Eq("id", r["id"]), model.Eq("c", r["c"])), model.And(model.Eq("id", r["id"]), model.Eq("d", r["d"]))} {
				if m := compareCount(d, e, idx, e.Updog()); m != "" {
					return fmt.Sprintf("%s: %s", e, m)
				}
			}
		}
	}
	for _, e := range []*model.Expr{model.Eq("c", "shared"), model.Eq("d", "pre"), model.Eq("d", "thread0")} {
		if m := compareCount(d, e, idx, e.Updog()); m != "" {
			return fmt.Sprintf("%s: %s", e, m)
		}
	}
	if m := compareGrouped(d, model.Not(model.Eq("d", "pre")), []string{"d", "id"}, idx); m != "" {
		return "membership of the concurrent rows: " + trunc(m)
	}
	return ""
}

func c18Worker(ctx *rt.Ctx, job *rt.Job) []*rt.Violation {
	var j e3Job
	job.Decode(&j)
	var p c18Params
	json.Unmarshal(j.Params, &p)
	var outcome string
	return e3Explore(ctx, "C18", j, c18Scenario(ctx, p, &outcome), func() string { return fmt.Sprintf("w%d:%s", p.Writer, outcome) })
}

func c18Run(ctx *rt.Ctx) []*rt.Violation {
	type kr struct{ k, r, pre int }
	cfgs := []kr{{2, 2, 0}, {3, 1, 0}, {2, 1, 999}, {2, 2, 998}}
	if ctx.Thorough() {
		cfgs = []kr{{2, 2, 0}, {3, 1, 0}, {3, 2, 0}, {4, 1, 0}, {2, 3, 0}, {2, 1, 999}, {2, 2, 998}, {3, 1, 998}, {3, 1, 999}, {2, 2, 999}, {3, 1, 65535}, {3, 1, 131071}}
	}
	var jobs, bigJobs []rt.Job
	for _, w := range []ix.Writer{ix.MemFile, ix.Big} {
		for _, c := range cfgs {
			if w == ix.MemFile && c.pre > 0 && c.pre < 60000 && !(c.k == 2 && c.r == 1) {
				continue // the 1000-row commit only exists in the big writer
			}
			pb, _ := json.Marshal(c18Params{Writer: int(w), K: c.k, R: c.r, Pre: c.pre})
			if c.pre >= 60000 && (w == ix.Big || c.pre < 100000) {
				continue // (one such configuration is affordable: the in-memory writer with 131071 rows)
			}
			if false {
				// (the big writer commits every 1000 rows: two AddRow calls in all after so many rows are enough there)
				pb1, _ := json.Marshal(c18Params{Writer: int(w), K: 2, R: 1, Pre: c.pre})
				b, _ := json.Marshal(e3Job{Scenario: "addrow", Params: pb1, Bound: -1})
				bigJobs = append(bigJobs, rt.Job{Name: fmt.Sprintf("addrow-%s-2x1+%d", w, c.pre), NShards: 1, Args: b})
				continue
			}
			if c.pre >= 60000 {
				// every execution inserts the rows before the concurrent phase again, and every worker holds such an index
				// under the race detector (gigabytes, and the detector's shadow memory is not given back): three threads
				// with one row each, NO preemption (every order in which the threads can run one after the other; this
				// configuration alone is not explored without bound: an execution takes about a minute)
				b, _ := json.Marshal(e3Job{Scenario: "addrow", Params: pb, Bound: 0})
				bigJobs = append(bigJobs, rt.Job{Name: fmt.Sprintf("addrow-%s-%dx%d+%d", w, c.k, c.r, c.pre), NShards: 1, Args: b})
				continue
			}
			b, _ := json.Marshal(e3Job{Scenario: "addrow", Params: pb, Bound: -1})
			jobs = append(jobs, rt.Job{Name: fmt.Sprintf("addrow-%s-%dx%d+%d", w, c.k, c.r, c.pre), NShards: 1, Args: b})
		}
	}
	for _, w := range []ix.Writer{ix.MemFile, ix.Big} {
		pb, _ := json.Marshal(c18Params{Writer: int(w), K: 2, R: 2, Separate: true})
		b, _ := json.Marshal(e3Job{Scenario: "addrow-separate-writers", Params: pb, Bound: -1})
		jobs = append(jobs, rt.Job{Name: fmt.Sprintf("separate-%s", w), NShards: 1, Args: b})
	}
	outs := rt.RunJobs(ctx, jobs, rt.SpawnOpt{Race: true})
	vs := rt.Collect(ctx, outs, nil)
	if len(bigJobs) > 0 {
		vs = append(vs, rt.Collect(ctx, rt.RunJobs(ctx, bigJobs, rt.SpawnOpt{Race: true, Procs: 4}), nil)...)
	}
	ctx.Cov.Note("rule", "all interleavings (unbounded preemptions; no preemption - only the orders of whole threads - for the one configuration with 131071 pre-inserted rows) of k goroutines x r AddRow calls at every lock/unlock/waitgroup/atomic operation of the real writers, under the Go race detector; after the join the writer is flushed, opened, and compared with the model of a sequential insertion in id order")
	ctx.Cov.Note("configurations", fmt.Sprintf("%v (k, r, pre-inserted rows) x {in-memory writer, big writer}", cfgs))
	ctx.Cov.Add("distinct_outcomes", int64(ctx.Cov.SetLen("outcomes")))
	ctx.Assumef("scheduling points are the sync/atomic operations of packages updog and updog/driver (rewritten at build time); code between two such operations runs atomically, unsynchronised accesses are caught by the race detector, which sees only the program's own happens-before edges (turn hand-off is invisible to it)")
	ctx.Assumef("bbolt and roaring are not instrumented with scheduling points (their internal locks are real)")
	ctx.Assumef("2..4 goroutines are explored exhaustively; the property's 2..32 is not reachable exhaustively (AddRow is a single critical section, so more threads only add serialisations)")
	return vs
}

func c18Replay(ctx *rt.Ctx, v *rt.Violation) *rt.Violation { return e3Replay(ctx, "C18", v) }

func init() {
	register(&Property{ID: "C18", Level: "model_checking", Run: c18Run, Worker: c18Worker, Replay: c18Replay})
}
