package props

import (
	"context"
	"crypto/sha256"
	"database/sql"
	"database/sql/driver"
	"encoding/hex"
	"encoding/json"
	"fmt"
	"go.etcd.io/bbolt"
	"io"
	"os"
	"path/filepath"
	"regexp"
	"runtime/debug"
	"sort"
	"strings"

	_ "github.com/akrennmair/updog/driver"
	"github.com/akrennmair/updog/zzverif/flk"
	"github.com/akrennmair/updog/zzverif/ix"
	"github.com/akrennmair/updog/zzverif/model"
	"github.com/akrennmair/updog/zzverif/rt"
	"github.com/akrennmair/updog/zzverif/vsched"
)

// C17 — sql driver handles: (a) explicit-state search over open/query/close histories through the real
// database/sql, (b) schedule exploration of concurrent first use at the driver.Driver seam.

func c17Rows(f int) []model.Row {
	if f == 0 {
		return []model.Row{{"a": "1", "b": "2", "c": "foo"}, {"a": "1", "b": "3", "c": "bar"}, {"a": "5", "b": "2", "c": "foo"}, {"c": "quux"}}
	}
	// the rows matching a="1" have different ids than in file 0, so that a bitmap of one file used for the other shows
	return []model.Row{{"a": "2", "c": "zap"}, {"a": "1", "c": "zip"}, {"a": "2", "c": "zap"}, {"a": "1", "c": "zip"}, {"a": "1", "c": "zop"}}
}

var c17Opts = []string{"", "?preload=true&lrucache=true&lrucachesize=100000"}

const c17Query = `a = "1" ; c`
const c17PrepQuery = `a = $1 ; c`

// the concurrent scenarios use expressions with several nodes, so that a cached evaluation does several cache operations
const c17ConcQuery = `a = "1" | ( a = "no such value" & c = "foo" ) ; c`
const c17ConcPrepQuery = `a = $1 | ( a = "no such value" & c = "foo" ) ; c`

// expected rows of the query on file f, rendered
func c17Expected(f int) string {
	d := model.FromRows(c17Rows(f))
	sel, _ := d.Eval(model.Eq("a", "1"))
	g, _ := d.GroupBy(sel, []string{"c"})
	var s []string
	for _, x := range g {
		s = append(s, fmt.Sprintf("%s:%d", x.Fields[0].Value, x.Count))
	}
	return strings.Join(s, ",")
}

func readRows(rows *sql.Rows) (string, error) {
	defer rows.Close()
	var s []string
	for rows.Next() {
		var c string
		var n int64
		if err := rows.Scan(&c, &n); err != nil {
			return "", err
		}
		s = append(s, fmt.Sprintf("%s:%d", c, n))
	}
	return strings.Join(s, ","), rows.Err()
}

type c17Op struct {
	Op  string `json:"op"` // open | query | prep | query2 | close
	DSN int    `json:"dsn,omitempty"`
	H   int    `json:"h,omitempty"`
}

func (o c17Op) String() string {
	if o.Op == "open" {
		return fmt.Sprintf("Open(f%d%s%s)", c17File(o.DSN), map[int]string{0: "", 1: "+opts"}[o.DSN%2], map[int]string{0: "", 1: " spelled differently"}[c17Alias(o.DSN)])
	}
	if o.Op == "openq" {
		return fmt.Sprintf("Open+query(f%d%s%s as h%d)", c17File(o.DSN), map[int]string{0: "", 1: "+opts"}[o.DSN%2], map[int]string{0: "", 1: " spelled differently"}[c17Alias(o.DSN)], o.H)
	}
	if o.Op == "swap" {
		return "replace-file(f0)"
	}
	if o.Op == "relink" {
		return "point-symlink-f0-to-another-index"
	}
	return fmt.Sprintf("%s(h%d)", o.Op, o.H)
}

// DSN numbers: bit 0 = option string, bit 1 = file, bit 2 = the path is spelled differently (<dir>/./<name>): the same
// file live under two spellings of its path at once must behave like the same file under one spelling.
func c17File(dsn int) int  { return (dsn / 2) % 2 }
func c17Alias(dsn int) int { return dsn / 4 }

func c17Spell(path string, alias int) string {
	if alias == 0 {
		return path
	}
	return filepath.Dir(path) + "/./" + filepath.Base(path)
}

type c17Case struct {
	Pool int     `json:"pool"`
	Ops  []c17Op `json:"ops"`
}

func (c c17Case) sig() string {
	var s []string
	for _, o := range c.Ops {
		s = append(s, o.String())
	}
	return fmt.Sprintf("pool=%d %s", c.Pool, strings.Join(s, ";"))
}

type c17Handle struct {
	db  *sql.DB
	dsn int
}

var c17Masters [2][]byte

func c17Init(ctx *rt.Ctx) {
	if c17Masters[0] != nil {
		return
	}
	for f := 0; f < 2; f++ {
		p, _, err := ix.Build(ctx.Scratch, c17Rows(f), ix.MemFile)
		if err != nil {
			rt.Harnessf("build: %v", err)
		}
		c17Masters[f], _ = os.ReadFile(p)
		os.Remove(p)
	}
}

var c17Seq int

// c17ConflictSig is the canonical signature of the one recorded residual: a file that is live under one option
// string is opened under another option string.
const c17ConflictSig = "conflicting-options: Open(f0);query(h0);Open(f0+opts);query(h1) -> the second handle cannot be used"

// c17Play replays a history on fresh copies of the two files. It checks every step when all is set, else the last.
// Returns (violation text, canonical sig override, state key).
func c17Play(ctx *rt.Ctx, c c17Case, all bool) (viol string, sigOverride string, key string) {
	c17Init(ctx)
	c17Seq++
	var files [2]string
	for f := 0; f < 2; f++ {
		files[f] = filepath.Join(ctx.Scratch, fmt.Sprintf("c17-%d-f%d.updog", c17Seq, f))
		os.WriteFile(files[f], c17Masters[f], 0o644)
	}
	// file 1 is always addressed through a non-canonical spelling of its path: <B>/link/../<name>, where link is a symbolic
	// link to a directory <A>/sub, so that the operating system resolves the path to <A>/<name> - while a lexical clean-up
	// of the path yields <B>/<name>, where a decoy (the other index) lies. What is registered under one spelling must be
	// released under the same one, and the file that is opened must be the one the path names.
	real1 := files[1]
	dirA := filepath.Join(ctx.Scratch, fmt.Sprintf("c17-%d-A", c17Seq))
	dirB := filepath.Join(ctx.Scratch, fmt.Sprintf("c17-%d-B", c17Seq))
	os.MkdirAll(filepath.Join(dirA, "sub"), 0o755)
	os.MkdirAll(dirB, 0o755)
	os.Symlink(filepath.Join(dirA, "sub"), filepath.Join(dirB, "link"))
	os.Rename(real1, filepath.Join(dirA, filepath.Base(real1)))
	real1 = filepath.Join(dirA, filepath.Base(real1))
	os.WriteFile(filepath.Join(dirB, filepath.Base(real1)), c17Masters[0], 0o644) // the decoy
	files[1] = filepath.Join(dirB, "link") + "/../" + filepath.Base(real1)
	defer os.RemoveAll(dirA)
	defer os.RemoveAll(dirB)
	// file 0 is addressed through a symbolic link; "relink" points the link to another index while nothing is open
	real0 := files[0]
	alt0 := files[0] + ".alt"
	link0 := files[0] + ".link"
	os.Symlink(real0, link0)
	files[0] = link0
	defer os.Remove(link0)
	defer os.Remove(alt0)
	defer os.Remove(real0)
	handles := map[int]*c17Handle{}
	content := [2]int{0, 1} // which master's bytes each path currently holds ("swap" replaces file 0 while it is closed)
	flk.Sequential(true)
	defer flk.Sequential(false) // registered first = runs last: the cleanup below must still detect blocking calls
	defer func() {
		for _, h := range handles {
			func() {
				defer func() { recover() }()
				h.db.Close()
			}()
		}
		os.Remove(files[0])
		os.Remove(files[1])
	}()
	old := debug.SetGCPercent(-1) // a finalizer closing a leaked file would release its lock at a random time
	defer debug.SetGCPercent(old)

	liveOpts := func(file int, except int) map[int]bool { // option strings under which handles with an open connection exist
		m := map[int]bool{}
		for hi, h := range handles {
			if hi != except && c17File(h.dsn) == file && h.db.Stats().OpenConnections > 0 {
				m[h.dsn%2] = true
			}
		}
		return m
	}
	step := func(n int, o c17Op) (v string, sig string) {
		defer func() {
			if r := recover(); r != nil {
				if wb, ok := r.(flk.WouldBlock); ok {
					v = fmt.Sprintf("step %d %s hangs: %v", n+1, o, wb)
				} else if e, ok := r.(error); ok && strings.Contains(e.Error(), "would block forever") {
					v = fmt.Sprintf("step %d %s hangs: %v", n+1, o, e)
				} else {
					v = fmt.Sprintf("step %d %s panicked: %v", n+1, o, r)
				}
				// residual class: the file is live under different options
				if h := handles[o.H]; h != nil && o.Op != "open" && o.Op != "close" {
					if lo := liveOpts(c17File(h.dsn), o.H); lo[1-h.dsn%2] && !lo[h.dsn%2] {
						if _, ok := r.(flk.WouldBlock); !ok {
							return
						}
						sig = c17ConflictSig
					}
				}
			}
		}()
		switch o.Op {
		case "swap":
			// nobody has the file open: another index is put at the same path (what a nightly rebuild does); handles
			// opened afterwards must answer from the new file, whatever the driver remembers about the old one
			// (the new file keeps the old one's modification time, as `cp -p` or `rsync -t` publish it; the two masters
			// have the same size: nothing but the content tells them apart)
			fi, _ := os.Stat(files[0])
			if err := os.WriteFile(files[0], c17Masters[1], 0o644); err != nil {
				rt.Harnessf("swap: %v", err)
			}
			if fi != nil {
				os.Chtimes(files[0], fi.ModTime(), fi.ModTime())
			}
			content[0] = 1
		case "relink":
			if err := os.WriteFile(alt0, c17Masters[1], 0o644); err != nil {
				rt.Harnessf("relink: %v", err)
			}
			os.Remove(link0)
			if err := os.Symlink(alt0, link0); err != nil {
				rt.Harnessf("relink: %v", err)
			}
			content[0] = 1
		case "open":
			db, err := sql.Open("updog", "file:"+c17Spell(files[c17File(o.DSN)], c17Alias(o.DSN))+c17Opts[o.DSN%2])
			if err != nil {
				return fmt.Sprintf("step %d %s failed: %v", n+1, o, err), ""
			}
			if c.Pool > 0 {
				db.SetMaxOpenConns(c.Pool)
			}
			handles[o.H] = &c17Handle{db: db, dsn: o.DSN}
		case "close":
			h := handles[o.H]
			delete(handles, o.H)
			if err := h.db.Close(); err != nil {
				return fmt.Sprintf("step %d %s failed: %v", n+1, o, err), ""
			}
		case "badquery":
			// fails at execution (unknown column), directly and through a prepared statement: must be an error, and
			// must not leave anything behind (checked by the later steps: rows, release after the last Close)
			h := handles[o.H]
			if rows, err := h.db.Query(`nosuchcolumn = "1" ; c`); err == nil {
				rows.Close()
				if lo := liveOpts(c17File(h.dsn), o.H); !(lo[1-h.dsn%2] && !lo[h.dsn%2]) {
					return fmt.Sprintf("step %d %s: a query on an unknown column succeeded", n+1, o), ""
				}
			}
			if st, err := h.db.Prepare(`a = $1 & nosuchcolumn = $2`); err == nil {
				if rows, err := st.Query("1", "2"); err == nil {
					rows.Close()
				}
				st.Close()
			}
		case "query", "prep", "query2":
			h := handles[o.H]
			conflict := func() bool { lo := liveOpts(c17File(h.dsn), o.H); return lo[1-h.dsn%2] && !lo[h.dsn%2] }()
			want := c17Expected(content[c17File(h.dsn)])
			run := func() (string, error) {
				// a value that occurs nowhere: must give no rows (and must not leave anything behind that blocks Close)
				if rows, err := h.db.Query(`a = "no such value" ; c`); err != nil {
					return "", err
				} else if got, err := readRows(rows); err != nil || got != "" {
					return "absent value gave " + got, err
				}
				if o.Op == "prep" {
					st, err := h.db.Prepare(c17PrepQuery)
					if err != nil {
						return "", err
					}
					defer st.Close()
					// the same statement executed several times with different arguments
					for _, arg := range []string{"1", "no such value", "1"} {
						rows, err := st.Query(arg)
						if err != nil {
							return "", err
						}
						got, err := readRows(rows)
						if err != nil {
							return "", err
						}
						if arg == "1" && got != want {
							return got, nil
						}
						if arg != "1" && got != "" {
							return "absent value gave " + got, nil
						}
					}
					return want, nil
				}
				rows, err := h.db.Query(c17Query)
				if err != nil {
					return "", err
				}
				if o.Op == "query2" {
					// a second connection of the same handle while the first is busy
					rows2, err := h.db.Query(c17Query)
					if err != nil {
						rows.Close()
						return "", err
					}
					got2, err := readRows(rows2)
					if err != nil || got2 != want {
						rows.Close()
						return got2, err
					}
				}
				return readRows(rows)
			}
			got, err := run()
			if err != nil {
				if conflict {
					return fmt.Sprintf("step %d %s failed: %v", n+1, o, err), c17ConflictSig
				}
				return fmt.Sprintf("step %d %s failed: %v", n+1, o, err), ""
			}
			if got != want {
				return fmt.Sprintf("step %d %s returned rows %q, expected %q", n+1, o, got, want), ""
			}
		}
		// once the last handle on a file is closed (or none was ever used) the file is released
		for f := 0; f < 2; f++ {
			live := false
			for _, h := range handles {
				live = live || c17File(h.dsn) == f
			}
			if !live && !flk.Free(files[f]) {
				return fmt.Sprintf("after step %d %s no handle on file f%d is open but the file is still locked", n+1, o, f), ""
			}
		}
		return "", ""
	}
	for n, o := range c.Ops {
		if o.Op == "openq" { // macro: open a handle and use it at once (sql.Open alone does not connect)
			if v, sig := step(n, c17Op{Op: "open", DSN: o.DSN, H: o.H}); v != "" {
				return v, sig, ""
			}
			o = c17Op{Op: "query", H: o.H}
		}
		v, sig := step(n, o)
		if v != "" {
			return v, sig, ""
		}
		_ = all
	}
	// state key: driver cache entries of this replay's files + handle states
	var hs []string
	for hi, h := range handles {
		st := h.db.Stats()
		hs = append(hs, fmt.Sprintf("h%d:dsn%d:open%d:idle%d", hi, h.dsn, st.OpenConnections, st.Idle))
	}
	sort.Strings(hs)
	dump := c17DriverDump(files)
	if dump == "?" {
		return "", "", ""
	}
	return "", "", fmt.Sprintf("%s|content%v|%s", strings.Join(hs, ","), content, dump)
}

// c17DriverDump renders the complete private state of the registered driver (every field, also ones added later), with
// this replay's file names canonicalised and other replays' file names blanked ("?" if the driver cannot be reached).
func c17DriverDump(files [2]string) (out string) {
	defer func() {
		if recover() != nil {
			out = "?"
		}
	}()
	db, _ := sql.Open("updog", "file:/nonexistent")
	drv := db.Driver()
	db.Close()
	d := rt.DeepDump(drv, 3)
	for i, f := range files {
		d = strings.ReplaceAll(d, c17Spell(f, 1), fmt.Sprintf("F%d", i))
		d = strings.ReplaceAll(d, f, fmt.Sprintf("F%d", i))
		// a driver may register a file under its resolved path: same name in the key (which file it is at the moment
		// is in the key already: content[])
		if real, err := filepath.EvalSymlinks(f); err == nil && real != f {
			d = strings.ReplaceAll(d, real, fmt.Sprintf("F%d", i))
		}
	}
	return c17OldPath.ReplaceAllString(d, "OLD")
}

var c17OldPath = regexp.MustCompile(`[^"\s]*c17c?-[0-9]+(-f[0-9])?\.updog`)

func c17Enabled(c c17Case, o c17Op) bool {
	live := map[int]bool{}
	for _, p := range c.Ops {
		switch p.Op {
		case "open", "openq":
			live[p.H] = true
		case "close":
			delete(live, p.H)
		}
	}
	switch o.Op {
	case "swap", "relink":
		// once per history, whenever no handle is open (also initially: enabledness must be a function of the state,
		// and a state in which everything is closed again may have been merged with the initial one)
		for _, p := range c.Ops {
			if p.Op == "swap" || p.Op == "relink" {
				return false
			}
		}
		return len(live) == 0
	case "open", "openq":
		return !live[o.H] && len(live) < 3 && (o.H == 0 || live[o.H-1] || liveCountBelow(live, o.H))
	case "query2":
		return live[o.H] && c.Pool == 0
	case "badquery":
		// at most one failing query per history (keeps the alphabet small)
		for _, p := range c.Ops {
			if p.Op == "badquery" {
				return false
			}
		}
		return live[o.H]
	default:
		return live[o.H]
	}
}

// liveCountBelow: handle slots are filled lowest-free-first (symmetry reduction: slot numbers carry no meaning)
func liveCountBelow(live map[int]bool, h int) bool {
	for i := 0; i < h; i++ {
		if !live[i] {
			return false
		}
	}
	return true
}

func c17Alphabet() []c17Op {
	var ops []c17Op
	for h := 0; h < 3; h++ {
		for d := 0; d < 5; d++ { // 4: file 0 without options under another spelling of its path
			ops = append(ops, c17Op{Op: "open", DSN: d, H: h})
		}
	}
	for h := 0; h < 3; h++ {
		for _, k := range []string{"query", "prep", "query2", "badquery", "close"} {
			ops = append(ops, c17Op{Op: k, H: h})
		}
	}
	return append(ops, c17Op{Op: "swap"}, c17Op{Op: "relink"})
}

type c17Args struct {
	Pool     int       `json:"pool"`
	Depth    int       `json:"depth"`
	Unmerged bool      `json:"unmerged"`
	First    int       `json:"first"` // unmerged search: only histories that start with the First-th root operation (one job per root operation)
	Level    bool      `json:"level"` // expand the given histories by one operation each (one chunk of a BFS level)
	Hists    [][]c17Op `json:"hists,omitempty"`
}

// c17LevelOut is one transition of a BFS level as a worker reports it to the master, which owns the seen set.
type c17LevelOut struct {
	Ops      []c17Op `json:"ops"`
	Key      string  `json:"key"`
	Conflict bool    `json:"conflict,omitempty"`
	Show     string  `json:"show,omitempty"` // readable state of a few transitions (evidence samples)
}

// c17Unmerged: every history to depth 5 over a reduced alphabet (3 DSNs, <=2 handles, query/close), WITHOUT merging
// states: whatever hidden state an implementation keeps outside the driver object (package-level registries ...) cannot
// hide behind an equal state key here.
// c17UnmergedRoots: operations enabled in the initial state over the unmerged alphabet.
const c17UnmergedRoots = 10

func c17Unmerged(ctx *rt.Ctx, pool int, first int) []*rt.Violation {
	var alpha []c17Op
	for h := 0; h < 2; h++ {
		for _, d := range []int{0, 1, 2} {
			alpha = append(alpha, c17Op{Op: "open", DSN: d, H: h}, c17Op{Op: "openq", DSN: d, H: h})
		}
		// file 0 under another spelling of its path, without and with options (opened and used at once)
		alpha = append(alpha, c17Op{Op: "openq", DSN: 4, H: h}, c17Op{Op: "openq", DSN: 5, H: h})
		alpha = append(alpha, c17Op{Op: "query", H: h}, c17Op{Op: "close", H: h})
	}
	alpha = append(alpha, c17Op{Op: "swap"}, c17Op{Op: "relink"}) // histories that replace the closed file may be one step longer
	var vs []*rt.Violation
	conflictSeen := false
	var rec func(c c17Case) bool
	rec = func(c c17Case) bool {
		if len(c.Ops) > 0 {
			viol, sig, _ := c17Play(ctx, c, false)
			ctx.Cov.Add("unmerged_histories", 1)
			ctx.Cov.Add("traces_validated_against_impl", 1)
			if viol != "" {
				if sig == c17ConflictSig {
					if !conflictSeen {
						conflictSeen = true
						vs = append(vs, rt.NewViolation("C17", "seq", sig, c, "%s", viol))
					}
					return true // do not extend beyond the recorded residual
				}
				vs = append(vs, rt.NewViolation("C17", "seq", c.sig(), c, "%s", viol))
				return false
			}
		}
		hasSwap := false
		for _, o := range c.Ops {
			hasSwap = hasSwap || o.Op == "swap" || o.Op == "relink"
		}
		if len(c.Ops) == 6 || (len(c.Ops) == 5 && !hasSwap) {
			return true
		}
		nth := 0
		for _, op := range alpha {
			if !c17Enabled(c, op) {
				continue
			}
			nth++
			if len(c.Ops) == 0 && nth-1 != first {
				continue // another job's subtree
			}
			if !rec(c17Case{Pool: pool, Ops: append(append([]c17Op{}, c.Ops...), op)}) {
				return false
			}
		}
		if len(c.Ops) == 0 && nth != c17UnmergedRoots {
			rt.Harnessf("unmerged search: %d root operations, %d jobs", nth, c17UnmergedRoots)
		}
		if ctx.Expired() {
			ctx.Cov.Cap(fmt.Sprintf("unmerged search pool=%d root operation %d: deadline", pool, first))
			return false
		}
		return true
	}
	rec(c17Case{Pool: pool})
	return vs
}

// c17LevelWorker expands every given history by every enabled operation on the real driver and reports (history, key).
func c17LevelWorker(ctx *rt.Ctx, a c17Args) []*rt.Violation {
	alpha := c17Alphabet()
	var outs []c17LevelOut
	var vs []*rt.Violation
	defer func() { ctx.Cov.Note("level_out", outs) }()
	for _, h := range a.Hists {
		for _, op := range alpha {
			hc := c17Case{Pool: a.Pool, Ops: h}
			if !c17Enabled(hc, op) {
				continue
			}
			c := c17Case{Pool: a.Pool, Ops: append(append([]c17Op{}, h...), op)}
			if ctx.Expired() {
				ctx.Cov.Cap(fmt.Sprintf("pool=%d: deadline at depth %d", a.Pool, len(h)+1))
				return vs
			}
			viol, sig, key := c17Play(ctx, c, false)
			ctx.Cov.Add("transitions", 1)
			ctx.Cov.Add("traces_validated_against_impl", 1)
			if viol != "" {
				if sig == c17ConflictSig {
					outs = append(outs, c17LevelOut{Ops: c.Ops, Conflict: true})
					vs = append(vs, rt.NewViolation("C17", "seq", sig, c, "%s", viol))
					continue // residual class: do not expand beyond it
				}
				vs = append(vs, rt.NewViolation("C17", "seq", c.sig(), c, "%s", viol))
				return vs
			}
			if key == "" {
				key = c.sig() // cannot bind the driver's private state: no merging
			}
			h := sha256.Sum256([]byte(key)) // the master keeps hashes: a state dump can be kilobytes long
			lo := c17LevelOut{Ops: c.Ops, Key: hex.EncodeToString(h[:12])}
			if len(c.Ops) == 4 && len(outs)%97 == 0 {
				lo.Show = key
				if len(lo.Show) > 600 {
					lo.Show = lo.Show[:600] + "..."
				}
			}
			outs = append(outs, lo)
		}
		if ctx.Expired() {
			ctx.Cov.Cap(fmt.Sprintf("pool=%d: deadline at depth %d", a.Pool, len(h)+1))
			return vs
		}
	}
	return vs
}

// c17SeqBFS is the master of the level-synchronous search: it owns the seen set, hands each level's frontier to worker
// processes in chunks, and merges what they report in a fixed order (so the search is the same on every run).
func c17SeqBFS(ctx *rt.Ctx, pool, maxDepth int, k0 string) []*rt.Violation {
	seen := map[string]bool{k0: true}
	ctx.Cov.Add("states", 1)
	frontier := [][]c17Op{{}}
	var vs []*rt.Violation
	conflictSeen := false
	for depth := 1; depth <= maxDepth && len(frontier) > 0; depth++ {
		nchunks := (len(frontier) + 39) / 40
		if nchunks > 8 {
			nchunks = 8
		}
		var jobs []rt.Job
		for ch := 0; ch < nchunks; ch++ {
			var hs [][]c17Op
			for i := ch; i < len(frontier); i += nchunks {
				hs = append(hs, frontier[i])
			}
			b, _ := json.Marshal(c17Args{Pool: pool, Level: true, Hists: hs})
			jobs = append(jobs, rt.Job{Name: "seq", NShards: 1, Args: b})
		}
		outs := rt.RunJobs(ctx, jobs, rt.SpawnOpt{})
		var next [][]c17Op
		stop := false
		for _, o := range outs {
			if o.Res != nil && o.Res.Cov != nil {
				if raw, ok := o.Res.Cov.Notes["level_out"]; ok {
					b, _ := json.Marshal(raw)
					var los []c17LevelOut
					if err := json.Unmarshal(b, &los); err != nil {
						rt.Harnessf("level_out: %v", err)
					}
					for _, lo := range los {
						if lo.Conflict || seen[lo.Key] {
							continue
						}
						seen[lo.Key] = true
						ctx.Cov.Add("states", 1)
						next = append(next, lo.Ops)
						if depth == 4 && lo.Show != "" {
							ctx.Cov.Sample(2, map[string]any{"history": c17Case{Pool: pool, Ops: lo.Ops}.sig(), "state": lo.Show})
						}
					}
					delete(o.Res.Cov.Notes, "level_out")
				}
				for _, inc := range o.Res.Cov.Incomplete {
					if strings.Contains(inc, "deadline") {
						stop = true
					}
				}
			}
		}
		for _, v := range rt.Collect(ctx, outs, nil) {
			if v.Sig == c17ConflictSig {
				if conflictSeen {
					continue
				}
				conflictSeen = true
			} else {
				stop = true
			}
			vs = append(vs, v)
		}
		if stop {
			return vs
		}
		frontier = next
		ctx.Cov.Max("max_depth", int64(depth))
		if len(frontier) > 30000 {
			// (seen on changed code whose driver keeps history-dependent state: nothing merges any more)
			ctx.Cov.Cap(fmt.Sprintf("pool=%d: %d unmerged states at depth %d: search stopped", pool, len(frontier), depth))
			return vs
		}
	}
	if len(frontier) > 0 {
		ctx.Cov.Cap(fmt.Sprintf("pool=%d: depth bound %d reached with %d states on the frontier", pool, maxDepth, len(frontier)))
	}
	return vs
}

func c17SeqWorker(ctx *rt.Ctx, job *rt.Job, a c17Args) []*rt.Violation {
	if a.Unmerged {
		return c17Unmerged(ctx, a.Pool, a.First)
	}
	if a.Level {
		return c17LevelWorker(ctx, a)
	}
	rt.Harnessf("seq job without a mode")
	return nil
}

// ---- concurrent first use at the driver.Driver seam -------------------------------------------

type c17Params struct {
	Threads int  `json:"threads"`
	Mixed   bool `json:"mixed"`             // one thread re-opens after closing (open/close/open)
	Args    bool `json:"args"`              // every thread binds a different argument (direct and prepared path)
	LRU     bool `json:"lru"`               // the DSN asks for an LRU cache, which all connections of the file then share
	Preload bool `json:"preload,omitempty"` // the DSN asks for preloaded data
	Tiny    bool `json:"tiny,omitempty"`    // with LRU: a cache too small to keep any entry (lrucachesize=10)
	Broken  bool `json:"broken,omitempty"`  // the file is a bbolt file without index content: every concurrent Open fails; afterwards a valid index is put there
	Cancel  bool `json:"cancel,omitempty"`  // thread 0 runs a statement under a context that thread 1 cancels at any moment, then runs it again
}

var c17Broken []byte

// c17BrokenFile: a bbolt database without any updog content.
func c17BrokenFile(ctx *rt.Ctx) []byte {
	if c17Broken == nil {
		p := filepath.Join(ctx.Scratch, "c17-broken.db")
		db, err := bbolt.Open(p, 0o644, nil)
		if err != nil {
			rt.Harnessf("broken file: %v", err)
		}
		db.Close()
		c17Broken, _ = os.ReadFile(p)
		os.Remove(p)
	}
	return c17Broken
}

func c17Driver() driver.Driver {
	db, _ := sql.Open("updog", "file:/nonexistent")
	defer db.Close()
	return db.Driver()
}

func c17ConcScenario(ctx *rt.Ctx, p c17Params, outcome *string) vsched.Scenario {
	c17Init(ctx)
	drv := c17Driver()
	want := c17Expected(0)
	wantArg := map[string]string{}
	if p.Args {
		d := model.FromRows(c17Rows(0))
		for _, v := range []string{"1", "5"} {
			sel, _ := d.Eval(model.Eq("a", v))
			g, _ := d.GroupBy(sel, []string{"c"})
			var s []string
			for _, x := range g {
				s = append(s, fmt.Sprintf("%s:%d", x.Fields[0].Value, x.Count))
			}
			wantArg[v] = strings.Join(s, ",")
		}
	}
	return func() ([]func(), func(*vsched.Result) string) {
		c17Seq++
		file := filepath.Join(ctx.Scratch, fmt.Sprintf("c17c-%d.updog", c17Seq))
		os.WriteFile(file, c17Masters[0], 0o644)
		if p.Broken {
			os.WriteFile(file, c17BrokenFile(ctx), 0o644)
		}
		dsn := "file:" + file
		if p.LRU && p.Tiny {
			dsn += "?lrucache=true&lrucachesize=10"
		} else if p.LRU {
			dsn += "?lrucache=true&lrucachesize=1000000"
		} else if p.Preload {
			dsn += "?preload=true"
		}
		got := make([]string, p.Threads)
		use := func(t int) string {
			conn, err := drv.Open(dsn)
			if err != nil {
				return "open error: " + err.Error()
			}
			var rows driver.Rows
			if p.Args {
				arg := []string{"1", "5"}[t%2]
				if t < 2 {
					rows, err = conn.(driver.QueryerContext).QueryContext(context.Background(), c17ConcPrepQuery, []driver.NamedValue{{Ordinal: 1, Value: arg}})
				} else {
					var st driver.Stmt
					if st, err = conn.Prepare(c17ConcPrepQuery); err == nil {
						rows, err = st.Query([]driver.Value{arg})
					}
				}
			} else {
				rows, err = conn.(driver.QueryerContext).QueryContext(context.Background(), c17ConcQuery, nil)
			}
			if err != nil {
				conn.Close()
				return "query error: " + err.Error()
			}
			var s []string
			vals := make([]driver.Value, len(rows.Columns()))
			for {
				if err := rows.Next(vals); err == io.EOF {
					break
				} else if err != nil {
					return "next error: " + err.Error()
				}
				s = append(s, fmt.Sprintf("%v:%v", vals[0], vals[1]))
			}
			rows.Close()
			if err := conn.Close(); err != nil {
				return "close error: " + err.Error()
			}
			return strings.Join(s, ",")
		}
		if p.Cancel {
			// thread 0: one connection, one statement (prepared, and the direct path): executed with argument "1" under a
			// context that thread 1 cancels at whatever moment, then again with argument "5" under a context nobody
			// cancels. The first execution may fail with the context's error or return the rows of "1"; the second must
			// return the rows of "5" - never what the abandoned first execution left behind.
			var first, second [2]string
			readAll := func(rows driver.Rows, err error) string {
				if err != nil {
					return "error: " + err.Error()
				}
				defer rows.Close()
				var s []string
				vals := make([]driver.Value, len(rows.Columns()))
				for {
					if err := rows.Next(vals); err == io.EOF {
						break
					} else if err != nil {
						return "next error: " + err.Error()
					}
					s = append(s, fmt.Sprintf("%v:%v", vals[0], vals[1]))
				}
				return strings.Join(s, ",")
			}
			cctx, cancel := context.WithCancel(context.Background())
			octx, ocancel := context.WithCancel(context.Background())
			bodies := []func(){
				func() {
					conn, err := drv.Open(dsn)
					if err != nil {
						first[0] = "open error: " + err.Error()
						return
					}
					defer conn.Close()
					st, err := conn.Prepare(c17ConcPrepQuery)
					if err != nil {
						first[0] = "prepare error: " + err.Error()
						return
					}
					defer st.Close()
					run := func(c context.Context, arg string, prepared bool) string {
						nv := []driver.NamedValue{{Ordinal: 1, Value: arg}}
						if !prepared {
							return readAll(conn.(driver.QueryerContext).QueryContext(c, c17ConcPrepQuery, nv))
						}
						if sc, ok := st.(driver.StmtQueryContext); ok {
							return readAll(sc.QueryContext(c, nv))
						}
						return readAll(st.Query([]driver.Value{arg}))
					}
					first[0] = run(cctx, "1", true)
					second[0] = run(octx, "5", true)
					first[1] = run(cctx, "1", false)
					second[1] = run(octx, "5", false)
				},
				func() { cancel() },
			}
			check := func(r *vsched.Result) string {
				defer os.Remove(file)
				defer ocancel()
				for i, path := range []string{"prepared statement", "direct query"} {
					if first[i] != wantArg["1"] && !strings.Contains(first[i], "context canceled") {
						return fmt.Sprintf("%s under a context that is cancelled concurrently returned %q (expected the rows %q or the context's error)", path, first[i], wantArg["1"])
					}
					if second[i] != wantArg["5"] {
						return fmt.Sprintf("%s executed again (argument 5) after the cancelled execution returned %q, expected %q", path, second[i], wantArg["5"])
					}
				}
				if !flk.Free(file) {
					return "the connection is closed but the file is still locked"
				}
				*outcome = fmt.Sprintf("first=%v", strings.Contains(first[0], "context canceled"))
				return ""
			}
			return bodies, check
		}
		var bodies []func()
		for t := 0; t < p.Threads; t++ {
			t := t
			bodies = append(bodies, func() {
				got[t] = use(t)
				if p.Mixed && t == 0 && (got[t] == want || p.Args) {
					got[t] = use(t)
				}
			})
		}
		check := func(r *vsched.Result) (v string) {
			defer os.Remove(file)
			if p.Broken {
				// every concurrent Open failed (cleanly); nothing of that may outlive it: the file is released, and once a
				// valid index lies at the path it opens and answers
				for t, g := range got {
					if !strings.HasPrefix(g, "open error: ") {
						return fmt.Sprintf("thread %d: %q, expected an error from Open (the file is not an index)", t, g)
					}
				}
				if !flk.Free(file) {
					return "every Open failed but the file is still locked"
				}
				os.WriteFile(file, c17Masters[0], 0o644)
				flk.Sequential(true)
				defer flk.Sequential(false)
				defer func() {
					if r := recover(); r != nil {
						v = fmt.Sprintf("opening the valid index that replaced the broken file: %v", r)
					}
				}()
				if g := use(0); g != want {
					return fmt.Sprintf("after the failed concurrent opens a valid index was put at the path: %q, expected rows %q", g, want)
				}
				if !flk.Free(file) {
					return "all connections are closed but the file is still locked"
				}
				*outcome = fmt.Sprint(len(r.Steps))
				return ""
			}
			for t, g := range got {
				w := want
				if p.Args {
					w = wantArg[[]string{"1", "5"}[t%2]]
				}
				if g != w {
					return fmt.Sprintf("thread %d: %q, expected rows %q", t, g, w)
				}
			}
			if !flk.Free(file) {
				return "all connections are closed but the file is still locked"
			}
			*outcome = fmt.Sprint(len(r.Steps))
			return ""
		}
		return bodies, check
	}
}

func c17Worker(ctx *rt.Ctx, job *rt.Job) []*rt.Violation {
	if job.Name == "seq" {
		var a c17Args
		job.Decode(&a)
		return c17SeqWorker(ctx, job, a)
	}
	var j e3Job
	job.Decode(&j)
	var p c17Params
	json.Unmarshal(j.Params, &p)
	old := debug.SetGCPercent(-1)
	defer debug.SetGCPercent(old)
	var outcome string
	return e3Explore(ctx, "C17", j, c17ConcScenario(ctx, p, &outcome), func() string { return string(j.Params) + outcome })
}

func c17Run(ctx *rt.Ctx) []*rt.Violation {
	depth := 6
	if ctx.Thorough() {
		depth = 8
	}
	var seq []rt.Job
	for _, pool := range []int{0, 1} {
		// one job per root operation: 3 x open, 5 x open+query (handle 0), replace-file, relink
		for first := 0; first < c17UnmergedRoots; first++ {
			b, _ := json.Marshal(c17Args{Pool: pool, Unmerged: true, First: first})
			seq = append(seq, rt.Job{Name: "seq", Shard: first, NShards: c17UnmergedRoots, Args: b})
		}
	}
	type cc struct {
		p      c17Params
		bound  int
		shards int // level-1 subtrees of the schedule tree are dealt to this many worker processes
	}
	concs := []cc{{c17Params{Threads: 2}, 2, 2}, {c17Params{Threads: 2, Mixed: true}, 2, 5}, {c17Params{Threads: 3}, 1, 1}, {c17Params{Threads: 2, Args: true}, 2, 2}, {c17Params{Threads: 3, Args: true}, 1, 1}, {c17Params{Threads: 2, LRU: true}, 2, 2}, {c17Params{Threads: 2, Args: true, LRU: true}, 1, 1}, {c17Params{Threads: 2, Preload: true}, 1, 1}, {c17Params{Threads: 3, Args: true, Preload: true}, 1, 1}, {c17Params{Threads: 2, LRU: true, Tiny: true}, 2, 2}, {c17Params{Threads: 2, Args: true, Cancel: true}, 2, 2}, {c17Params{Threads: 2, Broken: true}, 2, 2}, {c17Params{Threads: 2, Broken: true, Preload: true}, 1, 1}}
	if ctx.Thorough() {
		concs = []cc{{c17Params{Threads: 2}, 4, 6}, {c17Params{Threads: 2, Mixed: true}, 3, 8}, {c17Params{Threads: 3}, 2, 6}, {c17Params{Threads: 3, Mixed: true}, 2, 8}, {c17Params{Threads: 2, Args: true}, 3, 4}, {c17Params{Threads: 3, Args: true}, 2, 6}, {c17Params{Threads: 2, LRU: true}, 3, 4}, {c17Params{Threads: 3, Args: true, LRU: true}, 1, 2}, {c17Params{Threads: 2, Preload: true}, 3, 4}, {c17Params{Threads: 3, Args: true, Preload: true}, 2, 6}, {c17Params{Threads: 3, LRU: true, Tiny: true}, 2, 6}, {c17Params{Threads: 2, Args: true, Cancel: true}, 4, 6}, {c17Params{Threads: 2, Broken: true}, 4, 6}, {c17Params{Threads: 3, Broken: true}, 2, 6}}
	}
	var conc []rt.Job
	for _, c := range concs {
		pb, _ := json.Marshal(c.p)
		for sh := 0; sh < c.shards; sh++ {
			b, _ := json.Marshal(e3Job{Scenario: "first-use", Params: pb, Bound: c.bound, Shard: sh, NShards: c.shards})
			conc = append(conc, rt.Job{Name: "conc", Shard: sh, NShards: c.shards, Args: b})
		}
	}
	done := make(chan []rt.JobOutcome)
	go func() { done <- rt.RunJobs(ctx, conc, rt.SpawnOpt{Race: true}) }()
	type bfsOut struct {
		vs  []*rt.Violation
		pan any
	}
	bfs := make(chan bfsOut, 2)
	for _, pool := range []int{0, 1} {
		pool := pool
		_, _, k0 := c17Play(ctx, c17Case{Pool: pool}, false)
		go func() {
			var o bfsOut
			defer func() { o.pan = recover(); bfs <- o }()
			o.vs = c17SeqBFS(ctx, pool, depth, k0)
		}()
	}
	outs := rt.RunJobs(ctx, seq, rt.SpawnOpt{})
	vs := rt.Collect(ctx, outs, nil)
	for i := 0; i < 2; i++ {
		o := <-bfs
		if o.pan != nil {
			panic(o.pan)
		}
		vs = append(vs, o.vs...)
	}
	vs = append(vs, rt.Collect(ctx, <-done, nil)...)
	ctx.Cov.Note("sequential", fmt.Sprintf("BFS over histories of {Open(dsn) for 2 files x 2 option strings (file 0 also under a second spelling of its path), Query, Prepare+Stmt.Query, two overlapping Queries, Close} through database/sql with the registered driver, <=3 live handles, pool size in {unlimited,1}, depth %d, states merged on (handle pool stats, generic dump of all driver fields), each level expanded by parallel worker processes; file 1 is addressed through a non-canonical path spelling; plus every history to depth 5 over the reduced alphabet {3 DSNs, query, close, <=2 handles} WITHOUT state merging (state kept outside the driver object cannot hide there)", depth))
	var cdesc []string
	for _, c := range concs {
		cdesc = append(cdesc, fmt.Sprintf("%d threads%s%s%s%s: <=%d preemptions, %d shard(s)", c.p.Threads, map[bool]string{true: " +reopen"}[c.p.Mixed], map[bool]string{true: " +the file is a bbolt file without index content (every Open fails; then a valid index is put there and opened)"}[c.p.Broken], map[bool]string{true: " +different arguments"}[c.p.Args], map[bool]string{true: " +LRU option"}[c.p.LRU]+map[bool]string{true: " +preload option"}[c.p.Preload]+map[bool]string{true: " (cache too small for any entry)"}[c.p.Tiny]+map[bool]string{true: " (thread 0: a statement under a context that thread 1 cancels, then the same statement again)"}[c.p.Cancel], c.bound, c.shards))
	}
	ctx.Cov.Note("concurrent", fmt.Sprintf("%v: threads each doing driver.Open -> QueryContext -> Close on one file (what database/sql does on concurrent first use of a fresh handle), preemption-bounded DFS, file-lock waits are scheduling points, race detector live", cdesc))
	ctx.Cov.Note("rule", "sequential: every transition replayed on fresh file copies, checks rows, no panic, no lock wait (a wait in a single-threaded history is a hang), file released after last Close; concurrent: no deadlock/panic/race, rows correct, file free at the end")
	ctx.Assumef("a wait for bbolt's file lock in a single-goroutine history is reported as a hang (nobody else can release it); GC is disabled during replays so that a finalizer cannot release a leaked lock")
	ctx.Assumef("16 goroutines per handle are not enumerable; 2-3 threads with bounded preemptions are")
	return vs
}

func c17Replay(ctx *rt.Ctx, v *rt.Violation) *rt.Violation {
	if v.Kind == "schedule" {
		return e3Replay(ctx, "C17", v)
	}
	var c c17Case
	if err := json.Unmarshal(v.Case, &c); err != nil {
		rt.Harnessf("case: %v", err)
	}
	viol, sig, _ := c17Play(ctx, c, true)
	if viol == "" {
		return nil
	}
	if sig == "" {
		sig = c.sig()
	}
	return rt.NewViolation("C17", "seq", sig, c, "%s", viol)
}

func init() {
	register(&Property{ID: "C17", Level: "model_checking", Run: c17Run, Worker: c17Worker, Replay: c17Replay})
}
