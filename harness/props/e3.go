package props

import (
	"encoding/json"
	"fmt"
	"os"
	"time"

	"github.com/akrennmair/updog/zzverif/rt"
	"github.com/akrennmair/updog/zzverif/vsched"
)

// Common plumbing of the schedule-exploration properties (C04, C17, C18).

// e3Job is the argument of a worker that explores one scenario.
type e3Job struct {
	Scenario string          `json:"scenario"`
	Params   json.RawMessage `json:"params"`
	Bound    int             `json:"bound"`            // preemption bound, -1 = unbounded
	Replay   []int           `json:"replay,omitempty"` // run exactly this schedule instead of exploring
	Shard    int             `json:"shard,omitempty"`  // this worker explores the level-1 subtrees i with i % NShards == Shard
	NShards  int             `json:"nshards,omitempty"`
	IsReplay bool            `json:"is_replay,omitempty"`
}

type e3Case struct {
	Scenario string          `json:"scenario"`
	Params   json.RawMessage `json:"params"`
	Choices  []int           `json:"choices"`
	Trace    []vsched.Step   `json:"trace,omitempty"`
	RaceLog  string          `json:"race_log,omitempty"`
}

func (c e3Case) sig() string {
	return fmt.Sprintf("scenario=%s params=%s schedule=%v", c.Scenario, string(c.Params), c.Choices)
}

func raceLogPath() string {
	p := os.Getenv("VCHECK_RACE_LOG")
	if p == "" {
		return ""
	}
	return fmt.Sprintf("%s.%d", p, os.Getpid())
}

// e3Explore runs one scenario in this (worker) process and converts the outcome.
func e3Explore(ctx *rt.Ctx, prop string, j e3Job, sc vsched.Scenario, outcome func() string) []*rt.Violation {
	ex := &vsched.Explorer{Scenario: sc, Bound: j.Bound, RaceLogPath: raceLogPath(), Outcome: outcome, Deadline: ctx.Deadline.Add(-5 * time.Second), Shard: j.Shard, NShards: j.NShards}
	var st vsched.Stats
	if j.IsReplay {
		st = ex.ReplayOne(j.Replay)
	} else {
		st = ex.Explore()
	}
	ctx.Cov.Add("schedules", int64(st.Schedules))
	ctx.Cov.Add("transitions", int64(st.Points))
	ctx.Cov.Add("states", int64(st.Points+st.Schedules)) // states visited along the explored executions (stateless search: not de-duplicated)
	ctx.Cov.Add("traces_validated_against_impl", int64(st.Schedules))
	ctx.Cov.Add("schedules_with_preemption", int64(st.WithPreemption))
	ctx.Cov.Add("schedules_with_blocked_thread", int64(st.Contended))
	ctx.Cov.Max("max_points_per_execution", int64(st.MaxPoints))
	for o := range st.Outcomes {
		ctx.Cov.SetAdd("outcomes", o)
	}
	ctx.Cov.Add("executions_diverged_from_replayed_prefix", int64(st.Diverged))
	if st.SkippedSubtrees > 0 {
		ctx.Cov.Cap(fmt.Sprintf("%s %s: %d schedule prefixes could not be reproduced (nondeterminism outside the scheduler, e.g. map iteration order)", j.Scenario, string(j.Params), st.SkippedSubtrees))
	}
	if !st.Complete && st.SkippedSubtrees == 0 {
		ctx.Cov.Cap(fmt.Sprintf("%s %s: deadline hit at preemption bound %d after %d schedules", j.Scenario, string(j.Params), j.Bound, st.Schedules))
	}
	if len(st.Samples) > 0 {
		ctx.Cov.Sample(1, map[string]any{"scenario": j.Scenario, "params": j.Params, "bound": j.Bound, "schedules": st.Schedules, "sample_schedule": st.Samples[len(st.Samples)-1]})
	}
	if st.Violation != "" {
		c := e3Case{Scenario: j.Scenario, Params: j.Params, RaceLog: st.RaceLog}
		if st.ViolationRun != nil {
			c.Choices = trimChoices(st.ViolationRun.Choices)
			c.Trace = st.ViolationRun.Steps
		}
		return []*rt.Violation{rt.NewViolation(prop, "schedule", c.sig(), c, "%s", st.Violation)}
	}
	return nil
}

// trimChoices drops the trailing default choices (the replay takes 0 beyond the recorded prefix).
func trimChoices(c []int) []int {
	n := len(c)
	for n > 0 && c[n-1] == 0 {
		n--
	}
	return append([]int{}, c[:n]...)
}

// e3Replay re-executes one recorded schedule in a fresh -race worker.
func e3Replay(ctx *rt.Ctx, prop string, v *rt.Violation) *rt.Violation {
	var c e3Case
	if err := json.Unmarshal(v.Case, &c); err != nil {
		rt.Harnessf("case: %v", err)
	}
	b, _ := json.Marshal(e3Job{Scenario: c.Scenario, Params: c.Params, Bound: -1, Replay: c.Choices, IsReplay: true})
	outs := rt.RunJobs(ctx, []rt.Job{{Name: "replay", NShards: 1, Args: b}}, rt.SpawnOpt{Race: true})
	vs := rt.Collect(ctx, outs, nil)
	if len(vs) == 0 {
		return nil
	}
	vs[0].Prop = prop
	return vs[0]
}
