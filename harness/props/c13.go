package props

import (
	"database/sql"
	"encoding/json"
	"fmt"
	"os"
	"reflect"
	"strings"

	"github.com/akrennmair/updog"
	"github.com/akrennmair/updog/internal/convert"
	"github.com/akrennmair/updog/internal/queryparser"
	updogv1 "github.com/akrennmair/updog/proto/updog/v1"
	"github.com/akrennmair/updog/zzverif/ix"
	"github.com/akrennmair/updog/zzverif/model"
	"github.com/akrennmair/updog/zzverif/rt"
)

// C13 — the gRPC service answers each query of a batch like the library, in order: real `updog server`
// processes, every batch of length 0..3 over 8 queries x 5 id patterns x server options x index files.

// c13Long: a value of n bytes; values of different length or ending share their first bytes.
func c13Long(n int, end string) string {
	return strings.Repeat("v", n-len(end)) + end
}

func c13Files() [][]model.Row {
	return [][]model.Row{
		{{"a": "1", "b": "2", "c": "foo"}, {"a": "1", "b": "3", "c": "bar"}, {"a": "5", "b": "2", "c": "foo"}, {"c": "quux"}},
		{{"a": "x", "b": "é"}, {"a": "x", "b": "q\"\n"}, {}, {"b": "é"}, {"a": "", "b": "é"}},
		// prefix-related column names: "a"+"bc" == "ab"+"c" (fields must not be identified by column+value glued together)
		{{"a": "bc", "ab": "c", "b": "é"}, {"a": "b", "ab": "c"}, {"a": "bc", "ab": ""}, {"ab": "c", "b": "2"}},
		func() []model.Row {
			var r []model.Row
			for i := 0; i < 1100; i++ {
				r = append(r, model.Row{"a": fmt.Sprint(i % 7), "b": fmt.Sprint(i), "c": fmt.Sprint(i % 2)})
			}
			return r
		}(),
		// column names with blanks: "first name" next to "first" and "name" (a group-by list must not be identified by its
		// names glued together with blanks, commas, ...)
		{{"first name": "ann lee", "first": "ann", "name": "lee", "a": "1", "b": "2"}, {"first name": "bob", "first": "bob", "name": "", "a": "1"}, {"first": "ann", "name": "kim", "a": "2", "b": "2"}, {"first name": "ann", "first,name": "x", "a": "1", "b": "3"}},
		// values longer than any excerpt a server may make of them for a log or an error text, alike in their first 64 / 255 bytes
		{{"a": c13Long(65, "x"), "b": c13Long(300, "x")}, {"a": c13Long(64, ""), "b": c13Long(300, "x")}, {"a": c13Long(65, "x"), "b": c13Long(300, "y")}, {"a": c13Long(65, "y"), "b": c13Long(256, "")}, {"a": c13Long(100, "x")}},
	}
}

// c13Hundred: one request with 100 queries (more than any per-request or per-core budget a server may have)
var c13Hundred = func() []int {
	var b []int
	for i := 0; i < 100; i++ {
		b = append(b, []int{0, 4, 1}[i%3])
	}
	return b
}()

type c13Q struct {
	Expr    *model.Expr
	GroupBy []string
}

func c13Queries(file int) []c13Q {
	a1 := model.Eq("a", map[int]string{0: "1", 1: "x", 2: "bc", 3: "3", 4: "1", 5: c13Long(65, "x")}[file])
	bq := model.Eq("b", map[int]string{0: "2", 1: "é", 2: "é", 3: "17", 4: "2", 5: c13Long(300, "x")}[file])
	q1, q2 := c13Q{a1, []string{"b"}}, c13Q{map[bool]*model.Expr{false: model.Not(a1), true: model.Not(model.Eq("a", "nomatch"))}[file == 2], map[bool][]string{false: {"a", "b"}, true: {"a", "ab"}}[file == 2]}
	if file == 4 {
		// the same expression grouped by one column with a blank in its name, and by the two columns that spell it
		q1, q2 = c13Q{a1, []string{"first name"}}, c13Q{a1, []string{"first", "name"}}
	}
	q6 := c13Q{model.Not(model.Not(bq)), []string{"b", "b"}}
	if file == 4 {
		// ... and by the ONE column whose name is those two joined with a comma
		q6 = c13Q{a1, []string{"first,name"}}
	}
	return []c13Q{
		{a1, nil},
		q1,
		q2,
		{model.Eq("a", "nomatch"), []string{"a"}},
		{model.Or(a1, bq), nil},
		{model.And(model.Or(a1, bq), model.Not(model.And(a1, bq))), []string{"a"}},
		q6,
		{model.Eq("nosuchcolumn", "1"), nil}, // invalid
		// invalid, but next to an operand that could decide the AND on its own (a value that occurs nowhere): still invalid
		{model.And(model.Eq("a", "nomatch"), model.Eq("nosuchcolumn", "1")), nil},
		// an AND without operands as a direct operand of an AND (only the wire can say this): the library's answer counts
		{model.And(a1, model.And()), nil},
		{model.Not(model.And(model.And(), bq)), []string{"a"}},
	}
}

var c13IDPatterns = []string{"zero", "explicit", "duplicate", "mixed", "low"}

func c13IDs(pattern string, n int) []int32 {
	ids := make([]int32, n)
	for i := range ids {
		switch pattern {
		case "explicit":
			ids[i] = int32(40 + 3*i)
		case "duplicate":
			ids[i] = 5
		case "mixed":
			if i%2 == 1 {
				ids[i] = int32(9 - i)
			}
		case "low": // one explicit id that coincides with the position of a later id-less query
			if i == 0 {
				ids[i] = 2
			}
		}
	}
	return ids
}

type c13Case struct {
	File    int    `json:"file"`
	Cache   bool   `json:"cache"`
	Preload bool   `json:"preload"`
	Batch   []int  `json:"batch"`
	IDs     string `json:"ids"`
	Kind    string `json:"kind"` // batch | driver | convert
	Text    string `json:"text,omitempty"`
}

func (c c13Case) sig() string {
	if c.Kind == "driver" {
		return fmt.Sprintf("driver file=%d cache=%v preload=%v text=%q", c.File, c.Cache, c.Preload, c.Text)
	}
	return fmt.Sprintf("%s file=%d cache=%v preload=%v batch=%v ids=%s", c.Kind, c.File, c.Cache, c.Preload, c.Batch, c.IDs)
}

func resultString(r *updogv1.Result) string {
	var g []string
	for _, x := range r.Groups {
		var f []string
		for _, fl := range x.Fields {
			f = append(f, fmt.Sprintf("%s=%q", fl.Column, fl.Value))
		}
		g = append(g, fmt.Sprintf("(%s):%d", strings.Join(f, ","), x.Count))
	}
	return fmt.Sprintf("id=%d count=%d groups=[%s]", r.QueryId, r.TotalCount, strings.Join(g, " "))
}

type c13World struct {
	srv  *updogServer
	lib  *updog.Index
	p, q string
}

func newC13World(ctx *rt.Ctx, file int, cache, preload bool) *c13World {
	p, _, err := ix.Build(ctx.Scratch, c13Files()[file], ix.MemFile)
	if err != nil {
		rt.Harnessf("build: %v", err)
	}
	b, _ := os.ReadFile(p)
	q := p + ".lib"
	os.WriteFile(q, b, 0o644)
	w := &c13World{p: p, q: q}
	w.lib, err = ix.Open(q, false, nil)
	if err != nil {
		rt.Harnessf("open: %v", err)
	}
	w.srv = startServer(p, cache, preload)
	return w
}

func (w *c13World) close() {
	w.srv.stop()
	w.lib.Close()
	os.Remove(w.p)
	os.Remove(w.q)
}

// c13Incomplete: members that are invalid because their tree is incomplete (indexes 8, 9, 10 of the batch alphabet).
func c13Incomplete(file int) []*updogv1.Query {
	a1 := toProto(c13Queries(file)[0].Expr)
	return []*updogv1.Query{
		{Expr: pAnd(a1, &pexpr{})}, // an operand whose oneof is unset
		{Expr: pNot(nil)},          // NOT without operand
		{GroupBy: []string{"a"}},   // no expression at all
	}
}

func c13CheckBatch(w *c13World, c c13Case) string {
	qs := c13Queries(c.File)
	inc := c13Incomplete(c.File)
	ids := c13IDs(c.IDs, len(c.Batch))
	req := &updogv1.QueryRequest{}
	var want []string
	invalid := false
	for i, qi := range c.Batch {
		if qi >= len(qs) {
			m := inc[qi-len(qs)]
			req.Queries = append(req.Queries, &updogv1.Query{Id: ids[i], Expr: m.Expr, GroupBy: m.GroupBy})
			invalid = true
			continue
		}
		q := qs[qi]
		pq := &updogv1.Query{Id: ids[i], Expr: toProto(q.Expr), GroupBy: q.GroupBy}
		req.Queries = append(req.Queries, pq)
		// the conversion of a query must be lossless
		if cq := convert.ToQuery(pq); cq.Expr == nil || cq.Expr.String() != q.Expr.Updog().String() || !reflect.DeepEqual(cq.GroupBy, q.GroupBy) {
			return fmt.Sprintf("ToQuery converts query %d to %v group by %v, expected %s group by %v", qi, cq.Expr, cq.GroupBy, q.Expr.Updog().String(), q.GroupBy)
		}
		res, err := w.lib.Execute(&updog.Query{Expr: q.Expr.Updog(), GroupBy: append([]string{}, q.GroupBy...)})
		if err != nil {
			invalid = true
			continue
		}
		id := ids[i]
		if id == 0 {
			id = int32(i + 1)
		}
		pr := convert.ToProtobufResult(res, id)
		// the conversion must be lossless
		if back := convert.ToResult(pr); !reflect.DeepEqual(normResult(back), normResult(res)) {
			return fmt.Sprintf("ToResult(ToProtobufResult(r)) differs from r for query %d: %v vs %v", qi, back, res)
		}
		want = append(want, resultString(&updogv1.Result{QueryId: id, TotalCount: res.Count, Groups: libGroups(res)}))
	}
	resp, err := w.srv.query(req)
	if !w.srv.alive() {
		return "the server process died"
	}
	if invalid {
		if err == nil {
			return fmt.Sprintf("the batch has an invalid member but the call succeeded with %d result(s)", len(resp.Results))
		}
		if resp != nil {
			return "an RPC error came together with a response"
		}
		return ""
	}
	if err != nil {
		return fmt.Sprintf("the call failed: %v", err)
	}
	var got []string
	for _, r := range resp.Results {
		got = append(got, resultString(r))
	}
	if !reflect.DeepEqual(got, want) && !(len(got) == 0 && len(want) == 0) {
		return fmt.Sprintf("response %v, expected %v", got, want)
	}
	return ""
}

// libGroups builds the expected protobuf groups independently of the conversion package.
func libGroups(res *updog.Result) []*updogv1.Result_Group {
	var out []*updogv1.Result_Group
	for _, g := range res.Groups {
		pg := &updogv1.Result_Group{Count: g.Count}
		for _, f := range g.Fields {
			pg.Fields = append(pg.Fields, &updogv1.Result_Group_ResultField{Column: f.Column, Value: f.Value})
		}
		out = append(out, pg)
	}
	return out
}

func normResult(r *updog.Result) string {
	return fmt.Sprintf("%d %s", r.Count, groupsString(ix.Groups(r.Groups)))
}

func c13CheckDriver(w *c13World, c c13Case) (viol string) {
	defer func() {
		if r := recover(); r != nil {
			viol = fmt.Sprintf("panic: %v", r)
		}
	}()
	gdb, err := sql.Open("updog", "grpc://"+w.srv.addr)
	if err != nil {
		return err.Error()
	}
	defer gdb.Close()
	fdb, err := sql.Open("updog", "file:"+w.q+".drv")
	if err != nil {
		return err.Error()
	}
	defer fdb.Close()
	run := func(db *sql.DB) string {
		rows, err := db.Query(c.Text)
		if err != nil {
			return "error"
		}
		cols, _ := rows.Columns()
		cols = append([]string{}, cols...)
		s, err := scanAll(rows)
		if err != nil {
			return "scan error: " + err.Error()
		}
		return fmt.Sprintf("%v %s", cols, s)
	}
	g, f := run(gdb), run(fdb)
	if g != f {
		return fmt.Sprintf("grpc data source returned %s, file data source returned %s", g, f)
	}
	// one prepared statement per data source, executed three times with different arguments
	{
		tpl := "a = $1 | b = $2 ; a"
		argsets := [][]any{{"1", "2"}, {"x", "é"}, {"1", "2"}, {"3", "17"}}
		gs, gerr := gdb.Prepare(tpl)
		fs, ferr := fdb.Prepare(tpl)
		if (gerr == nil) != (ferr == nil) {
			return fmt.Sprintf("Prepare(%q): grpc error %v, file error %v", tpl, gerr, ferr)
		}
		if gerr == nil {
			defer gs.Close()
			defer fs.Close()
			// direct execution with arguments of every kind database/sql passes through unchanged
			for _, a := range [][]any{{[]byte("1"), "2"}, {nil, "é"}, {"x", []byte("é")}, {int64(1), int64(2)}, {"", nil}, {3.0, true}} {
				rd := func(db *sql.DB) string {
					rows, err := db.Query(tpl, a...)
					if err != nil {
						return "error"
					}
					s, err := scanAll(rows)
					if err != nil {
						return "scan error"
					}
					return s
				}
				if g, f := rd(gdb), rd(fdb); g != f {
					return fmt.Sprintf("direct query %q with arguments %#v: grpc data source returned %s, file data source returned %s", tpl, a, g, f)
				}
			}
			for i, a := range argsets {
				rd := func(st *sql.Stmt) string {
					rows, err := st.Query(a...)
					if err != nil {
						return "error"
					}
					s, err := scanAll(rows)
					if err != nil {
						return "scan error"
					}
					return s
				}
				if g, f := rd(gs), rd(fs); g != f {
					return fmt.Sprintf("execution #%d of a prepared statement with %v: grpc data source returned %s, file data source returned %s", i+1, a, g, f)
				}
			}
		}
	}
	// pool history on the grpc handle: two connections in use at once, one of them closed (idle limit 1), a transaction
	// holding a connection, then the query again on the surviving connection(s)
	r1, e1 := gdb.Query(c.Text)
	r2, e2 := gdb.Query(c.Text)
	if e1 == nil {
		r1.Close()
	}
	if e2 == nil {
		r2.Close()
	}
	gdb.SetMaxIdleConns(1)
	for i := 0; i < 2; i++ {
		if g2 := run(gdb); g2 != f {
			return fmt.Sprintf("after two connections of the grpc handle were in use and one was closed (idle limit 1), query #%d on the surviving connection returned %s, the file data source returns %s", i+1, g2, f)
		}
	}
	if tx, err := gdb.Begin(); err == nil {
		if rows, err := tx.Query(c.Text); err == nil {
			rows.Close()
		}
		r3, e3 := gdb.Query(c.Text)
		if e3 == nil {
			r3.Close()
		}
		tx.Rollback()
	}
	for i := 0; i < 3; i++ {
		if g2 := run(gdb); g2 != f {
			return fmt.Sprintf("after using two connections of the grpc handle and closing one, query #%d on it returned %s, the file data source returns %s", i+1, g2, f)
		}
	}
	return ""
}

type c13Args struct {
	File    int  `json:"file"`
	Cache   bool `json:"cache"`
	Preload bool `json:"preload"`
	MaxLen  int  `json:"max_len"`
}

func c13Worker(ctx *rt.Ctx, job *rt.Job) []*rt.Violation {
	var a c13Args
	job.Decode(&a)
	w := newC13World(ctx, a.File, a.Cache, a.Preload)
	defer w.close()
	var vs []*rt.Violation
	base := c13Case{File: a.File, Cache: a.Cache, Preload: a.Preload}
	for l := 0; l <= a.MaxLen; l++ {
		nq := len(c13Queries(a.File))
		if l <= 2 {
			nq += 3 // incomplete members too
		}
		idx := make([]int, l)
		for {
			for _, pat := range c13IDPatterns {
				if l == 0 && pat != "zero" {
					continue
				}
				c := base
				c.Kind, c.Batch, c.IDs = "batch", append([]int{}, idx...), pat
				ctx.Cov.Add("evaluations", 1)
				ctx.Cov.Add("rpcs", 1)
				if l >= 2 {
					ctx.Cov.Add("distinct_nontrivial", 1)
				}
				if m := c13CheckBatch(w, c); m != "" {
					vs = append(vs, rt.NewViolation("C13", "batch", c.sig(), c, "%s", m))
					return vs
				}
			}
			p := l - 1
			for p >= 0 {
				idx[p]++
				if idx[p] < nq {
					break
				}
				idx[p] = 0
				p--
			}
			if p < 0 {
				break
			}
		}
		if ctx.Expired() {
			ctx.Cov.Cap("deadline in batches")
			break
		}
	}
	// long batches: expensive queries first, cheap ones after (a server that answers out of request order shows here),
	// all queries in order / reversed / repeated, an invalid member at the end
	long := [][]int{{6, 2, 0, 4, 0, 4}, {2, 6, 5, 1, 0, 3, 4, 0}, {0, 1, 2, 3, 4, 5, 6}, {6, 5, 4, 3, 2, 1, 0}, {6, 0, 0, 0}, {2, 0, 4, 0, 4, 0, 4, 0, 4, 0, 4, 0}, {6, 2, 0, 4, 7}, {0, 4, 0, 4, 9}, {1, 2, 1, 2, 1, 2}, c13Hundred}
	for rep := 0; rep < 3; rep++ {
		for _, b := range long {
			for _, pat := range c13IDPatterns {
				c := base
				c.Kind, c.Batch, c.IDs = "batch", b, pat
				ctx.Cov.Add("evaluations", 1)
				ctx.Cov.Add("rpcs", 1)
				ctx.Cov.Add("distinct_nontrivial", 1)
				ctx.Cov.Add("long_batches", 1)
				if m := c13CheckBatch(w, c); m != "" {
					vs = append(vs, rt.NewViolation("C13", "batch", c.sig(), c, "%s", m))
					return vs
				}
			}
		}
	}
	// the sql driver through grpc:// vs file: (on a second copy of the file)
	b, _ := os.ReadFile(w.q)
	os.WriteFile(w.q+".drv", b, 0o644)
	defer os.Remove(w.q + ".drv")
	for _, q := range c13Queries(a.File) {
		c := base
		c.Kind = "driver"
		c.Text = queryparser.QueryToString(&updogv1.Query{Expr: toProto(q.Expr), GroupBy: q.GroupBy})
		ctx.Cov.Add("evaluations", 1)
		ctx.Cov.Add("distinct_nontrivial", 1)
		if m := c13CheckDriver(w, c); m != "" {
			vs = append(vs, rt.NewViolation("C13", "driver", c.sig(), c, "%s", m))
			return vs
		}
	}
	ctx.Cov.Sample(1, map[string]any{"case": c13Case{Kind: "batch", File: a.File, Cache: a.Cache, Preload: a.Preload, Batch: []int{2, 7, 1}, IDs: "mixed"}.sig()})
	return vs
}

func c13Run(ctx *rt.Ctx) []*rt.Violation {
	var jobs []rt.Job
	maxLen := 2
	if ctx.Thorough() {
		maxLen = 3
	}
	for f := range c13Files() {
		for _, cache := range []bool{true, false} {
			for _, pre := range []bool{false, true} {
				ml := maxLen
				if f == 0 && cache && !pre {
					ml = maxLen + 1 // the default server configuration gets one more (quick 3, thorough 4)
				}
				b, _ := json.Marshal(c13Args{File: f, Cache: cache, Preload: pre, MaxLen: ml})
				jobs = append(jobs, rt.Job{Name: "batches", NShards: 1, Args: b})
			}
		}
	}
	outs := rt.RunJobs(ctx, jobs, rt.SpawnOpt{})
	vs := rt.Collect(ctx, outs, nil)
	ctx.Cov.Note("rule", fmt.Sprintf("6 index files (one with values of 64..300 bytes that share their first 64 / 255 bytes, one with prefix-related columns a / ab whose name+value concatenations coincide, one with columns 'first name', 'first', 'name', 'first,name') x server options {cache on/off} x {preload on/off}: every batch of length 0..%d over 11 queries (ungrouped, grouped by 1-2 columns, no match, NOT/OR/AND, an unknown column alone and next to an absent value, an AND without operands nested in an AND; for length <=2 also 3 structurally incomplete members) and 10 long batches of 4..12 and of 100 queries (expensive first) x id patterns {all 0, explicit, duplicate, mixed, explicit ids equal to later positions} is sent to a real `updog server`; the response must hold one result per query in order with the id rule and the library's count and groups (library Execute on a copy of the file), an invalid member must fail the whole call; ToResult(ToProtobufResult(r)) == r for every library result; the texts through sql.Open grpc:// and file: must give identical columns and rows (also prepared statements, and direct queries with []byte / nil / numeric arguments); non-trivial = batches of >=2 queries and the driver comparisons", maxLen))
	ctx.Assumef("index strings are valid UTF-8 (protobuf strings cannot carry other bytes)")
	return vs
}

func c13Replay(ctx *rt.Ctx, v *rt.Violation) *rt.Violation {
	var c c13Case
	if err := json.Unmarshal(v.Case, &c); err != nil {
		rt.Harnessf("case: %v", err)
	}
	w := newC13World(ctx, c.File, c.Cache, c.Preload)
	defer w.close()
	if c.Kind == "driver" {
		b, _ := os.ReadFile(w.q)
		os.WriteFile(w.q+".drv", b, 0o644)
		defer os.Remove(w.q + ".drv")
		if m := c13CheckDriver(w, c); m != "" {
			return rt.NewViolation("C13", "driver", c.sig(), c, "%s", m)
		}
		return nil
	}
	if m := c13CheckBatch(w, c); m != "" {
		return rt.NewViolation("C13", "batch", c.sig(), c, "%s", m)
	}
	return nil
}

func init() {
	register(&Property{ID: "C13", Level: "exploration", Run: c13Run, Worker: c13Worker, Replay: c13Replay})
}
