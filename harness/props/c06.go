package props

import (
	"bytes"
	"encoding/binary"
	"encoding/json"
	"fmt"
	"github.com/akrennmair/updog/zzverif/ptk"
	"hash/fnv"
	"os"
	"os/exec"
	"path/filepath"
	"reflect"
	"strconv"
	"strings"
	"syscall"

	"github.com/akrennmair/updog"
	"github.com/akrennmair/updog/zzverif/flk"
	"github.com/akrennmair/updog/zzverif/ix"
	"github.com/akrennmair/updog/zzverif/model"
	"github.com/akrennmair/updog/zzverif/rt"
	"go.etcd.io/bbolt"
)

// C06 — crash atomicity of index creation: every prefix of the sequence of file writes issued while an index is
// created (plus page-granular torn writes) is materialised as a file image and opened with OpenIndex; the same
// through the process boundary with a self-SIGKILLing `updog create`.

type c06Case struct {
	Mode    string `json:"mode"`           // flush | writetodb | big | create | create-big
	N       int    `json:"n"`              // distinct values / rows
	Write   int    `json:"write"`          // the image is the file content immediately before this write (1-based); 0 = final
	Torn    int    `json:"torn,omitempty"` // first Torn pages of that write applied
	Preload bool   `json:"preload"`
	Image   []byte `json:"image,omitempty"` // the file image itself (write order depends on Go map iteration order)
	Retry   bool   `json:"retry,omitempty"` // the violation is about the run AFTER the crash (replayed by the whole traced job)
}

func (c c06Case) sig() string {
	return fmt.Sprintf("mode=%s n=%d crash-before-write=%d torn-pages=%d preload=%v", c.Mode, c.N, c.Write, c.Torn, c.Preload)
}

// c06Row: a unique value per row; from 6000 rows on also a value that holds for every other row (a bitmap that no
// run-length encoding can shrink, several KiB when serialised)
func c06Row(i int) model.Row {
	if c06Scattered {
		return model.Row{"v": strconv.Itoa(i), "p": strconv.Itoa(i % 2)}
	}
	return model.Row{"v": strconv.Itoa(i)}
}

var c06Scattered bool

// c06Expected: the probe answers of the completely written index.
type c06Expect struct {
	schema   [][]string
	probes   []string
	exprs    []*model.Expr
	complete []byte // the completely written file
}

func c06Probe(idx *updog.Index, schema [][]string) (out []string, msg string) {
	defer func() {
		if r := recover(); r != nil {
			msg = fmt.Sprintf("panic while querying: %v", r)
		}
	}()
	out = append(out, fmt.Sprint(schemaOf(idx)))
	for _, cl := range schema {
		col := cl[0]
		all := model.Not(model.Eq(col, "\x01none"))
		r, err := idx.Execute(&updog.Query{Expr: all.Updog(), GroupBy: []string{col}})
		out = append(out, renderResult(r, err))
		for _, v := range cl[1:] {
			e := model.Eq(col, v)
			r, err := idx.Execute(&updog.Query{Expr: e.Updog()})
			out = append(out, renderResult(r, err))
			r, err = idx.Execute(&updog.Query{Expr: model.Not(e).Updog()})
			out = append(out, renderResult(r, err))
		}
	}
	return out, ""
}

// c06ShortFile: does a valid meta page of the image claim more pages than the file holds? bbolt maps the file and
// reads such pages without checking the file size, which ends in SIGBUS (a fatal, unrecoverable signal), so these
// images are opened in a child process.
func c06ShortFile(img []byte) bool {
	for m := 0; m < 2; m++ {
		off := m*c06Page + 16
		if len(img) < off+64 {
			continue
		}
		b := img[off:]
		if binary.LittleEndian.Uint32(b[0:]) != 0xED0CDAED {
			continue
		}
		h := fnv.New64a()
		h.Write(b[:56])
		if h.Sum64() != binary.LittleEndian.Uint64(b[56:]) {
			continue
		}
		ps := uint64(binary.LittleEndian.Uint32(b[8:]))
		hwm := binary.LittleEndian.Uint64(b[40:])
		if hwm*ps > uint64(len(img)) {
			return true
		}
	}
	return false
}

const c06ShortSig = "torn-write: file shorter than the pages its valid meta page references -> SIGBUS inside bbolt.Open"

// c06JudgeChild opens a risky image in a child process; it reports a violation if the child dies.
func c06JudgeChild(ctx *rt.Ctx, image []byte, preload bool) (viol string, class string) {
	c06Seq++
	p := filepath.Join(ctx.Scratch, fmt.Sprintf("c06-short-%d.updog", c06Seq))
	if err := os.WriteFile(p, image, 0o644); err != nil {
		rt.Harnessf("image: %v", err)
	}
	defer os.Remove(p)
	self, _ := os.Executable()
	b, _ := json.Marshal(c06Args{Mode: "open-only", Path: p, Preload: preload})
	jb, _ := json.Marshal(rt.Job{Prop: "C06", Tier: "quick", Name: "open-only", NShards: 1, Args: b, Scratch: ctx.Scratch, Deadline: ctx.Deadline.Unix()})
	cmd := exec.Command(self, "worker", string(jb))
	out, err := cmd.CombinedOutput()
	if err == nil {
		return "", "short-file-survived"
	}
	sigline := ""
	for _, l := range strings.Split(string(out), "\n") {
		if strings.Contains(l, "SIGBUS") || strings.HasPrefix(l, "fatal error") || strings.HasPrefix(l, "panic") {
			sigline += l + " "
		}
	}
	return fmt.Sprintf("the process opening the partial file died: %v %s", err, trunc(sigline)), "short-file-crash"
}

// c06Judge opens one file image: "" = fine (absent / rejected / equal to the complete index), else the violation.
func c06Judge(ctx *rt.Ctx, image []byte, exp *c06Expect, preload bool) (viol string, class string) {
	if c06ShortFile(image) {
		return c06JudgeChild(ctx, image, preload)
	}
	// every image is judged at ONE path, at which this process has just opened (and closed) the complete index: a rebuild
	// at the path of yesterday's index is the ordinary case, and nothing remembered about the old file may vouch for the new one
	p := filepath.Join(ctx.Scratch, "c06-img.updog")
	defer os.Remove(p)
	flk.Sequential(true)
	defer flk.Sequential(false)
	if exp != nil && exp.complete != nil {
		if err := os.WriteFile(p, exp.complete, 0o644); err != nil {
			rt.Harnessf("image: %v", err)
		}
		if idx, err := ix.Open(p, preload, nil); err == nil {
			idx.Execute(&updog.Query{Expr: model.Eq("k", "c").Updog()})
			idx.Close()
		}
		os.Remove(p)
	}
	if err := os.WriteFile(p, image, 0o644); err != nil {
		rt.Harnessf("image: %v", err)
	}
	defer func() {
		if r := recover(); r != nil {
			viol, class = fmt.Sprintf("OpenIndex panicked on the partial file: %v", r), "panic"
		}
	}()
	idx, err := ix.Open(p, preload, nil)
	if err != nil {
		if !flk.Free(p) {
			return "the partial file is rejected, but it stays locked: opening it again would hang", "rejected-but-locked"
		}
		return "", "rejected"
	}
	defer idx.Close()
	got, msg := c06Probe(idx, exp.schema)
	if msg != "" {
		return msg, "panic"
	}
	for i := range exp.probes {
		if i >= len(got) || got[i] != exp.probes[i] {
			return fmt.Sprintf("the partial file is accepted as an index but answers probe #%d with %s; the complete index answers %s", i, trunc(got[i]), trunc(exp.probes[i])), "accepted-different"
		}
	}
	return "", "accepted-complete"
}

var c06Seq int

// c06Build runs the writer once; the output file is out.
func c06Build(mode string, n int, out string) error {
	c06Scattered = n >= 6000
	switch mode {
	case "flush":
		w := updog.NewIndexWriter(out)
		for i := 0; i < n; i++ {
			w.AddRow(c06Row(i))
		}
		return w.Flush()
	case "writetodb":
		w := updog.NewIndexWriter(out)
		for i := 0; i < n; i++ {
			w.AddRow(c06Row(i))
		}
		db, err := bbolt.Open(out, 0o644, nil)
		if err != nil {
			return err
		}
		defer db.Close()
		return w.WriteToBoltDatabase(db)
	case "big":
		tmp := out + ".tmp"
		defer os.Remove(tmp)
		tdb, err := bbolt.Open(tmp, 0o600, nil)
		if err != nil {
			return err
		}
		defer tdb.Close()
		db, err := bbolt.Open(out, 0o644, nil) // the caller opens the output first, as `create -b` does
		if err != nil {
			return err
		}
		defer db.Close()
		w, err := updog.NewBigIndexWriter(db, tdb)
		if err != nil {
			return err
		}
		for i := 0; i < n; i++ {
			// a constant column as well, so that rows and values differ
			if _, err := w.AddRow(model.Row{"v": strconv.Itoa(i % 1200), "k": "c"}); err != nil {
				return err
			}
		}
		return w.Flush()
	}
	return fmt.Errorf("mode")
}

func c06Expectation(ctx *rt.Ctx, build func(out string) error) *c06Expect {
	c06Seq++
	out := filepath.Join(ctx.Scratch, fmt.Sprintf("c06-full-%d.updog", c06Seq))
	if err := build(out); err != nil {
		rt.Harnessf("complete build failed: %v", err)
	}
	defer os.Remove(out)
	idx, err := ix.Open(out, false, nil)
	if err != nil {
		rt.Harnessf("complete index does not open: %v", err)
	}
	defer idx.Close()
	e := &c06Expect{schema: schemaOf(idx)}
	e.complete, _ = os.ReadFile(out)
	var msg string
	e.probes, msg = c06Probe(idx, e.schema)
	if msg != "" {
		rt.Harnessf("complete index: %s", msg)
	}
	return e
}

const c06Page = 4096

// c06InProcess enumerates every write prefix (+ torn pages) of one in-process build.
func c06InProcess(ctx *rt.Ctx, mode string, n int) []*rt.Violation {
	build := func(out string) error { return c06Build(mode, n, out) }
	exp := c06Expectation(ctx, build)
	c06Seq++
	out := filepath.Join(ctx.Scratch, fmt.Sprintf("c06-run-%d.updog", c06Seq))
	defer os.Remove(out)
	var vs []*rt.Violation
	seenClass := map[string]bool{}
	k := 0
	judge := func(img []byte, write, torn int) {
		for _, pre := range []bool{false, true} {
			ctx.Cov.Add("evaluations", 1)
			viol, class := c06Judge(ctx, img, exp, pre)
			ctx.Cov.Add("images_"+class, 1)
			ctx.Cov.SetAdd("outcomes", class)
			if viol != "" && !seenClass[class] {
				seenClass[class] = true
				c := c06Case{Mode: mode, N: n, Write: write, Torn: torn, Preload: pre, Image: img}
				sig := c.sig()
				if class == "short-file-crash" && len(img) <= 3*c06Page { // the recorded class: bbolt's own first write torn
					sig = c06ShortSig
				}
				vs = append(vs, rt.NewViolation("C06", "image", sig, c, "%s", viol))
			}
		}
	}
	bbolt.VerifOpenHook = func(db *bbolt.DB) {
		if db.Path() != out {
			return
		}
		db.VerifWrapWrite(func(orig func([]byte, int64) (int, error)) func([]byte, int64) (int, error) {
			return func(b []byte, off int64) (int, error) {
				k++
				cur, _ := os.ReadFile(out)
				judge(cur, k, 0)
				ctx.Cov.Add("crash_points", 1)
				if pages := len(b) / c06Page; pages > 1 {
					js := []int{}
					for j := 1; j < pages; j++ {
						if pages <= 8 || j <= 2 || j == pages/2 || j >= pages-2 {
							js = append(js, j)
						}
					}
					if pages > 8 {
						ctx.Cov.Note("torn_cap", "writes of more than 8 pages: torn after page 1, 2, n/2, n-2, n-1 only")
					}
					for _, j := range js {
						img := append([]byte{}, cur...)
						end := int(off) + j*c06Page
						if end > len(img) {
							img = append(img, make([]byte, end-len(img))...)
						}
						copy(img[off:], b[:j*c06Page])
						judge(img, k, j)
						ctx.Cov.Add("torn_images", 1)
					}
				}
				return orig(b, off)
			}
		})
	}
	err := build(out)
	bbolt.VerifOpenHook = nil
	if err != nil {
		rt.Harnessf("instrumented build failed: %v", err)
	}
	final, _ := os.ReadFile(out)
	// the final image must be accepted and complete
	for _, pre := range []bool{false, true} {
		viol, class := c06Judge(ctx, final, exp, pre)
		ctx.Cov.Add("evaluations", 1)
		ctx.Cov.Add("images_"+class, 1)
		ctx.Cov.SetAdd("outcomes", class)
		if viol == "" && class != "accepted-complete" {
			viol = "the completely written file is rejected"
		}
		if viol != "" {
			c := c06Case{Mode: mode, N: n, Write: 0, Preload: pre, Image: final}
			vs = append(vs, rt.NewViolation("C06", "image", c.sig(), c, "%s", viol))
		}
	}
	ctx.Cov.Add("distinct_nontrivial", int64(k)) // each write index is a distinct crash point
	ctx.Cov.Add("histories", 1)
	ctx.Cov.Sample(1, map[string]any{"mode": mode, "n": n, "writes": k, "final_bytes": len(final)})
	return vs
}

// c06Process: the same through `updog create [-b]`, one self-killing process per crash point.
func c06Process(ctx *rt.Ctx, big bool, n int) []*rt.Violation {
	bin := os.Getenv("VCHECK_UPDOG_KILL_BIN")
	if bin == "" {
		rt.Harnessf("VCHECK_UPDOG_KILL_BIN not set")
	}
	dir := ctx.TempDir("create")
	csv := filepath.Join(dir, "in.csv")
	var b bytes.Buffer
	b.WriteString("v,k\n")
	for i := 0; i < n; i++ {
		fmt.Fprintf(&b, "%d,c\n", i%1200)
	}
	os.WriteFile(csv, b.Bytes(), 0o644)
	mode := "create"
	args := []string{"create"}
	if big {
		mode = "create-big"
		args = append(args, "-b")
	}
	run := func(out string, env ...string) (killed bool, err error) {
		cmd := exec.Command(bin, append(args, "-o", out, csv)...)
		cmd.Env = append(os.Environ(), env...)
		cmd.Env = append(cmd.Env, "TMPDIR="+dir)
		e := cmd.Run()
		if ee, ok := e.(*exec.ExitError); ok {
			if ws, ok := ee.Sys().(syscall.WaitStatus); ok && ws.Signaled() && ws.Signal() == syscall.SIGKILL {
				return true, nil
			}
		}
		return false, e
	}
	// complete run -> expectation
	full := filepath.Join(dir, "full.updog")
	if _, err := run(full); err != nil {
		rt.Harnessf("updog create failed: %v", err)
	}
	idx, err := ix.Open(full, false, nil)
	if err != nil {
		rt.Harnessf("complete index does not open: %v", err)
	}
	exp := &c06Expect{schema: schemaOf(idx)}
	exp.probes, _ = c06Probe(idx, exp.schema)
	idx.Close()
	var vs []*rt.Violation
	seenClass := map[string]bool{}
	for k := 1; ; k++ {
		for _, torn := range []int{0, 1} {
			out := filepath.Join(dir, fmt.Sprintf("out-%d-%d.updog", k, torn))
			killed, err := run(out, "VERIF_KILL_PATH="+filepath.Base(out), "VERIF_KILL_AT="+strconv.Itoa(k), "VERIF_KILL_TORN="+strconv.Itoa(torn))
			if !killed {
				if err != nil {
					rt.Harnessf("updog-kill run failed: %v", err)
				}
				os.Remove(out)
				ctx.Cov.Add("distinct_nontrivial", int64(k-1))
				ctx.Cov.Add("histories", 1)
				ctx.Cov.Sample(1, map[string]any{"mode": mode, "rows": n, "kill_points": k - 1})
				os.RemoveAll(dir)
				return vs
			}
			ctx.Cov.Add("sigkilled_processes", 1)
			img, rerr := os.ReadFile(out)
			os.Remove(out)
			if rerr != nil {
				ctx.Cov.Add("images_absent", 1)
				continue // output absent
			}
			for _, pre := range []bool{false, true} {
				ctx.Cov.Add("evaluations", 1)
				viol, class := c06Judge(ctx, img, exp, pre)
				ctx.Cov.Add("images_"+class, 1)
				ctx.Cov.SetAdd("outcomes", class)
				if viol != "" && !seenClass[class] {
					seenClass[class] = true
					c := c06Case{Mode: mode, N: n, Write: k, Torn: torn, Preload: pre, Image: img}
					sig := c.sig()
					if class == "short-file-crash" && len(img) <= 3*c06Page {
						sig = c06ShortSig
					}
					vs = append(vs, rt.NewViolation("C06", "image", sig, c, "%s", viol))
				}
			}
		}
		if k > 5000 {
			rt.Harnessf("kill loop does not terminate")
		}
	}
}

// c06Traced: the unmodified `updog create [-b]` under ptrace, killed (whole process group, SIGKILL) immediately before its
// k-th system call that changes file content or names below the output directory or the temporary directory, for every
// k until a run completes: crash points of the PROCESS, whoever issues the call (bbolt, a copy loop, a rename ...).
// otherTmp: TMPDIR is on another file system than the output (a rename across them is not possible).
func c06Traced(ctx *rt.Ctx, big bool, n int, otherTmp bool, sigName string) []*rt.Violation {
	opt := ptk.Options{}
	switch sigName {
	case "int":
		opt = ptk.Options{Signal: syscall.SIGINT, CountReads: true}
	case "term":
		opt = ptk.Options{Signal: syscall.SIGTERM, CountReads: true}
	}
	bin := os.Getenv("VCHECK_UPDOG_BIN")
	if bin == "" {
		rt.Harnessf("VCHECK_UPDOG_BIN not set")
	}
	dir := ctx.TempDir("traced")
	defer os.RemoveAll(dir)
	tmp := dir
	if otherTmp {
		t, err := os.MkdirTemp("/tmp", "verif-c06-")
		if err != nil {
			rt.Harnessf("mkdtemp: %v", err)
		}
		defer os.RemoveAll(t)
		tmp = t
	}
	csv := filepath.Join(dir, "in.csv")
	var b bytes.Buffer
	b.WriteString("v,k\n")
	for i := 0; i < n; i++ {
		fmt.Fprintf(&b, "%d,c\n", i%1200)
	}
	os.WriteFile(csv, b.Bytes(), 0o644)
	mode := "traced-create"
	args := []string{bin, "create"}
	if big {
		mode = "traced-create-big"
		args = append(args, "-b")
	}
	if otherTmp {
		mode += "-tmp-on-other-fs"
	}
	if sigName != "" {
		mode += "-sig" + sigName
	}
	env := append(os.Environ(), "TMPDIR="+tmp)
	run := func(out string, k int) ptk.Result {
		r, err := ptk.RunOpt(append(append([]string{}, args...), "-o", out, csv), env, []string{dir + "/", tmp + "/"}, k, filepath.Join(dir, "stdout"), opt)
		if err != nil {
			rt.Harnessf("traced run: %v", err)
		}
		return r
	}
	full := filepath.Join(dir, "full.updog")
	// is tracing possible here at all? (a sandbox may forbid ptrace: then this part is skipped and says so)
	if _, err := ptk.Run([]string{bin, "schema", "-f", "/nonexistent"}, env, []string{dir + "/"}, 0, filepath.Join(dir, "stdout")); err != nil {
		ctx.Cov.Cap("ptrace is not available in this environment (" + err.Error() + "): process-level crash points skipped")
		return nil
	}
	r0 := run(full, 0)
	if r0.ExitCode != 0 {
		rt.Harnessf("traced complete run failed (exit %d): %s", r0.ExitCode, r0.Output)
	}
	idx, err := ix.Open(full, false, nil)
	if err != nil {
		rt.Harnessf("complete index does not open: %v", err)
	}
	exp := &c06Expect{schema: schemaOf(idx)}
	exp.probes, _ = c06Probe(idx, exp.schema)
	idx.Close()
	exp.complete, _ = os.ReadFile(full)
	os.Remove(full)
	// what the operator does after a crash: remove the partial output, correct the input, run the command again. The
	// second input has other values; nothing the first run left behind (temporary files next to the output or in
	// TMPDIR) may leak into the second index.
	csv2 := filepath.Join(dir, "in2.csv")
	var b2 bytes.Buffer
	b2.WriteString("v,k\n")
	for i := 0; i < n+2; i++ {
		// the same values as in the first input, on other rows (what is left of the first run would show in their counts)
		fmt.Fprintf(&b2, "%d,%s\n", (i*7+3)%1200, []string{"c", "d"}[i%2])
	}
	os.WriteFile(csv2, b2.Bytes(), 0o644)
	var exp2 *c06Expect
	{
		full2 := filepath.Join(dir, "full2.updog")
		cmd := exec.Command(args[0], append(append([]string{}, args[1:]...), "-o", full2, csv2)...)
		cmd.Env = env
		if o, err := cmd.CombinedOutput(); err != nil {
			rt.Harnessf("complete run on the second input failed: %v %s", err, o)
		}
		idx2, err := ix.Open(full2, false, nil)
		if err != nil {
			rt.Harnessf("second complete index does not open: %v", err)
		}
		exp2 = &c06Expect{schema: schemaOf(idx2)}
		exp2.probes, _ = c06Probe(idx2, exp2.schema)
		idx2.Close()
		os.Remove(full2)
	}
	var vs []*rt.Violation
	seenClass := map[string]bool{}
	out := filepath.Join(dir, "out.updog")
	for k := 1; k <= r0.Mutations+50; k++ {
		os.Remove(out)
		// leftovers of the previous run in the temporary directory
		if ents, err := os.ReadDir(tmp); err == nil {
			for _, e := range ents {
				if p := filepath.Join(tmp, e.Name()); p != csv && p != csv2 && p != out && !strings.HasSuffix(p, "/stdout") {
					os.RemoveAll(p)
				}
			}
		}
		os.WriteFile(csv, b.Bytes(), 0o644)
		r := run(out, k)
		if !r.Killed {
			if r.ExitCode != 0 {
				rt.Harnessf("traced run %d failed (exit %d): %s", k, r.ExitCode, r.Output)
			}
			ctx.Cov.Add("distinct_nontrivial", int64(k-1))
			ctx.Cov.Add("histories", 1)
			ctx.Cov.Note(fmt.Sprintf("traced_calls %s rows=%d", mode, n), map[string]any{"kill_points": k - 1, "calls_of_a_complete_run": trimCalls(r0.Calls, dir, tmp)})
			return vs
		}
		ctx.Cov.Add("traced_sigkilled_processes", 1)
		ctx.Cov.Add("crash_points", 1)
		img, rerr := os.ReadFile(out)
		// the retry (only after a kill: an interrupted process cleans up after itself or not, both are fine here)
		if sigName == "" && !seenClass["retry"] {
			os.Remove(out)
			cmd := exec.Command(args[0], append(append([]string{}, args[1:]...), "-o", out, csv2)...)
			cmd.Env = env
			o, err := cmd.CombinedOutput()
			ctx.Cov.Add("retries_after_crash", 1)
			msg := ""
			if err != nil {
				msg = fmt.Sprintf("the command run again after the crash (partial output removed, corrected input) fails: %v %s", err, trunc(string(o)))
			} else if idx, err := ix.Open(out, false, nil); err != nil {
				msg = fmt.Sprintf("the index written by the run after the crash does not open: %v", err)
			} else {
				got, pm := c06Probe(idx, exp2.schema)
				// values of the first input that the second one does not have: nothing may hold for them
				if pm == "" {
					in2 := map[string]bool{}
					for i := 0; i < n+2; i++ {
						in2[strconv.Itoa((i*7+3)%1200)] = true
					}
					for i := 0; i < n && pm == ""; i++ {
						if v := strconv.Itoa(i % 1200); !in2[v] {
							res, err := idx.Execute(&updog.Query{Expr: model.Eq("v", v).Updog()})
							if err != nil || res.Count != 0 {
								pm = fmt.Sprintf("v=%q (a value of the first, crashed run's input only) counts %v rows (error %v)", v, res, err)
							}
						}
					}
				}
				idx.Close()
				if pm != "" {
					msg = "the index written by the run after the crash: " + pm
				} else if !reflect.DeepEqual(schemaOfFile(out), exp2.schema) {
					msg = fmt.Sprintf("the index written by the run after the crash has schema %v, a clean run gives %v", trunc(fmt.Sprint(schemaOfFile(out))), trunc(fmt.Sprint(exp2.schema)))
				} else {
					for i := range exp2.probes {
						if i >= len(got) || got[i] != exp2.probes[i] {
							msg = fmt.Sprintf("the index written by the run after the crash answers probe #%d with %s; a clean run answers %s", i, trunc(got[i]), trunc(exp2.probes[i]))
							break
						}
					}
				}
			}
			if msg != "" {
				seenClass["retry"] = true
				last := ""
				if len(r.Calls) > 0 {
					last = " (first run killed before: " + trimCalls(r.Calls[len(r.Calls)-1:], dir, tmp)[0] + ")"
				}
				c := c06Case{Mode: mode, N: n, Write: k, Retry: true}
				vs = append(vs, rt.NewViolation("C06", "retry", c.sig()+" retry", c, "%s%s", msg, last))
			}
			os.Remove(out)
		}
		if rerr != nil {
			ctx.Cov.Add("images_absent", 1)
			continue
		}
		for _, pre := range []bool{false, true} {
			ctx.Cov.Add("evaluations", 1)
			viol, class := c06Judge(ctx, img, exp, pre)
			ctx.Cov.Add("images_"+class, 1)
			ctx.Cov.SetAdd("outcomes", class)
			if viol != "" && !seenClass[class] {
				seenClass[class] = true
				c := c06Case{Mode: mode, N: n, Write: k, Preload: pre, Image: img}
				sig := c.sig()
				if class == "short-file-crash" && len(img) <= 3*c06Page { // the recorded class: bbolt's own first write torn
					sig = c06ShortSig
				}
				last := ""
				if len(r.Calls) > 0 {
					last = " (killed before: " + trimCalls(r.Calls[len(r.Calls)-1:], dir, tmp)[0] + ")"
				}
				vs = append(vs, rt.NewViolation("C06", "image", sig, c, "%s%s", viol, last))
			}
		}
	}
	rt.Harnessf("traced kill loop does not terminate")
	return nil
}

func schemaOfFile(p string) [][]string {
	idx, err := ix.Open(p, false, nil)
	if err != nil {
		return nil
	}
	defer idx.Close()
	return schemaOf(idx)
}

func trimCalls(calls []string, dir, tmp string) []string {
	var out []string
	for i, c := range calls {
		if i >= 40 {
			out = append(out, fmt.Sprintf("... %d more", len(calls)-i))
			break
		}
		c = strings.ReplaceAll(c, tmp+"/", "$TMPDIR/")
		out = append(out, strings.ReplaceAll(c, dir+"/", "$DIR/"))
	}
	return out
}

type c06Args struct {
	Mode    string `json:"mode"`
	N       int    `json:"n"`
	Path    string `json:"path,omitempty"`
	Preload bool   `json:"preload,omitempty"`
	Sig     string `json:"sig,omitempty"` // traced modes: "" SIGKILL, "int" SIGINT, "term" SIGTERM (also while the input is read)
}

func c06Worker(ctx *rt.Ctx, job *rt.Job) []*rt.Violation {
	var a c06Args
	job.Decode(&a)
	switch a.Mode {
	case "open-only":
		idx, err := ix.Open(a.Path, a.Preload, nil)
		if err == nil {
			idx.GetSchema()
			idx.Close()
		}
		return nil
	case "create":
		return c06Process(ctx, false, a.N)
	case "create-big":
		return c06Process(ctx, true, a.N)
	case "traced", "traced-big":
		return c06Traced(ctx, a.Mode == "traced-big", a.N, a.Preload, a.Sig)
	}
	return c06InProcess(ctx, a.Mode, a.N)
}

func c06Run(ctx *rt.Ctx) []*rt.Violation {
	var jobs []rt.Job
	ns := []int{6000, 2500, 1001, 1000, 999, 3}
	if ctx.Thorough() {
		ns = []int{9000, 6000, 5000, 3001, 2500, 2001, 2000, 1001, 1000, 999, 3, 1, 0}
	}
	for _, mode := range []string{"flush", "writetodb", "big"} {
		for _, n := range ns {
			b, _ := json.Marshal(c06Args{Mode: mode, N: n})
			jobs = append(jobs, rt.Job{Name: mode, NShards: 1, Args: b})
		}
	}
	pn := []int{2500, 1001, 3}
	if ctx.Thorough() {
		pn = []int{2500, 1001, 1000, 999, 3}
	}
	for _, mode := range []string{"create", "create-big"} {
		for _, n := range pn {
			b, _ := json.Marshal(c06Args{Mode: mode, N: n})
			jobs = append(jobs, rt.Job{Name: mode, NShards: 1, Args: b})
		}
	}
	// the unmodified binary under ptrace, killed before every file-changing system call; TMPDIR next to the output and on
	// another file system (Preload doubles as that switch in the job arguments)
	for _, mode := range []string{"traced", "traced-big"} {
		for _, n := range []int{1001, 3} {
			for _, other := range []bool{false, true} {
				b, _ := json.Marshal(c06Args{Mode: mode, N: n, Preload: other})
				jobs = append(jobs, rt.Job{Name: mode, NShards: 1, Args: b})
			}
			for _, sig := range []string{"int", "term"} {
				b, _ := json.Marshal(c06Args{Mode: mode, N: n, Sig: sig})
				jobs = append(jobs, rt.Job{Name: mode, NShards: 1, Args: b})
			}
		}
	}
	outs := rt.RunJobs(ctx, jobs, rt.SpawnOpt{})
	vs := rt.Collect(ctx, outs, nil)
	ctx.Cov.Note("sizes", ns)
	ctx.Cov.Note("rule", "for every history (writer mode x size): the file content immediately before every write issued to the output file (all content changes go through bbolt's write function; the file is mapped read-only) and page-granular torn variants of multi-page writes are materialised and opened on demand and preloaded: the image must be rejected with an error or answer schema / every value count / every negated count / group-by per column exactly like the complete index; the same with a real `updog create [-b]` that SIGKILLs itself before its k-th write for every k; and the unmodified `updog create [-b]` under ptrace, its process group killed before its k-th file-changing system call (write, pwrite, rename, unlink, truncate, creating open, copy_file_range, sendfile ... on files below the output or temporary directory) for every k, with TMPDIR next to the output and on another file system; after a kill the command is run again on a corrected input with whatever the first run left behind still in place (the second index must be the clean one); the same points (plus every read of the input) with SIGINT and SIGTERM instead of SIGKILL; distinct_nontrivial = number of distinct crash points (write indexes)")
	ctx.Cov.Add("distinct_outcomes", int64(ctx.Cov.SetLen("outcomes")))
	ctx.Assumef("process death only: un-synced page cache is not lost (the property speaks of the process dying); fdatasync and ftruncate are not separate crash points (truncate only appends zero pages)")
	ctx.Assumef("bbolt's own transaction atomicity is trusted, and exercised by the torn-write images")
	return vs
}

func c06Replay(ctx *rt.Ctx, v *rt.Violation) *rt.Violation {
	var c c06Case
	if err := json.Unmarshal(v.Case, &c); err != nil {
		rt.Harnessf("case: %v", err)
	}
	if c.Retry {
		// the whole traced job again; it reports the first retry that goes wrong
		big := strings.Contains(c.Mode, "-big")
		for _, v := range c06Traced(ctx, big, c.N, strings.Contains(c.Mode, "other-fs"), "") {
			if v.Kind == "retry" {
				return v
			}
		}
		return nil
	}
	var exp *c06Expect
	if strings.HasPrefix(c.Mode, "create") || strings.HasPrefix(c.Mode, "traced") {
		// expectation from an in-process build of the same rows
		exp = c06Expectation(ctx, func(out string) error {
			w := updog.NewIndexWriter(out)
			for i := 0; i < c.N; i++ {
				w.AddRow(model.Row{"v": strconv.Itoa(i % 1200), "k": "c"})
			}
			return w.Flush()
		})
	} else {
		exp = c06Expectation(ctx, func(out string) error { return c06Build(c.Mode, c.N, out) })
	}
	viol, class := c06Judge(ctx, c.Image, exp, c.Preload)
	if viol != "" {
		sig := c.sig()
		if class == "short-file-crash" && len(c.Image) <= 3*c06Page {
			sig = c06ShortSig
		}
		return rt.NewViolation("C06", "image", sig, c, "%s", viol)
	}
	return nil
}

func init() {
	register(&Property{ID: "C06", Level: "fault_enumeration", Run: c06Run, Worker: c06Worker, Replay: c06Replay})
}
