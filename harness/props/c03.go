package props

import (
	"container/list"
	"encoding/json"
	"fmt"
	"hash/fnv"
	"os"
	"reflect"
	"sort"
	"strconv"
	"strings"
	"unsafe"

	"github.com/RoaringBitmap/roaring"
	"github.com/akrennmair/updog"
	"github.com/akrennmair/updog/zzverif/flk"
	"github.com/akrennmair/updog/zzverif/ix"
	"github.com/akrennmair/updog/zzverif/model"
	"github.com/akrennmair/updog/zzverif/rt"
)

// C03 — caches are transparent: (i) explicit-state search over query histories on one cached index,
// (ii) all ordered pairs of a tree space on a fresh ample cache.

// swapCache lets one open index be used with a fresh cache for every replayed history.
type swapCache struct{ inner updog.Cache }

func (s *swapCache) Get(k uint64) (*roaring.Bitmap, bool) {
	if s.inner == nil {
		return nil, false
	}
	return s.inner.Get(k)
}
func (s *swapCache) Put(k uint64, bm *roaring.Bitmap) {
	if s.inner != nil {
		s.inner.Put(k, bm)
	}
}

type c03Query struct {
	Expr    *model.Expr
	GroupBy []string
}

// c03Extended is set in thorough runs (workers read it from the job): a larger alphabet.
var c03Extended bool

// c03AndNot selects the small second alphabet (leaves, AND with one positive and negated operands, OR with a negated
// operand, an operand-less AND): it is searched to its own fixpoint so that the base alphabet's state space stays small.
var c03AndNot bool

// c03Grouped selects the third small alphabet: grouped queries (the same expression under permuted, repeated and
// different group-by lists; one column both tested and grouped by), searched to its own fixpoint.
var c03Grouped bool

func c03Alphabet() []c03Query {
	a, b, c := model.Eq("a", "1"), model.Eq("b", "1"), model.Eq("c", "1")
	q := func(e *model.Expr) c03Query { return c03Query{Expr: e} }
	if c03Grouped {
		return []c03Query{q(a), q(b),
			{Expr: a, GroupBy: []string{"a"}}, {Expr: b, GroupBy: []string{"b"}}, {Expr: a, GroupBy: []string{"b"}},
			{Expr: a, GroupBy: []string{"a", "a"}}, {Expr: model.Not(c), GroupBy: []string{"b", "c", "b"}},
			{Expr: a, GroupBy: []string{"b", "c"}}, {Expr: a, GroupBy: []string{"c", "b"}},
			{Expr: model.Or(a, c), GroupBy: []string{"b", "c"}}, {Expr: model.Or(a, c), GroupBy: []string{"c", "b"}},
			{Expr: model.Not(a), GroupBy: []string{"a"}}, {Expr: model.Eq("b", "0"), GroupBy: []string{"b"}}}
	}
	if c03AndNot {
		return []c03Query{q(a), q(b), q(c), q(model.Not(a)), q(model.And(a, b)),
			q(model.And(a, model.Not(b))), q(model.And(c, model.Not(a), model.Not(b))), q(model.Or(b, model.Not(c))),
			q(model.Not(model.And(a, b))), q(model.Not(model.Or(a, b))), q(model.Or(model.Not(a), model.Not(b))),
			q(model.And(a, b, model.And())), // an operand-less AND nested in an AND (compared with a fresh uncached index)
			{Expr: model.And(a, model.Not(c)), GroupBy: []string{"b"}}}
	}
	base := c03Base()
	if !c03Extended {
		return base
	}
	return append(base,
		q(model.Not(model.And(a, b))), q(model.Or(model.Not(a), model.Not(b))), q(model.Not(model.Or(a, b))),
		q(model.And(a, b, c)), q(model.And(c, b, a)), q(model.Or(a, b, c)), q(model.And(model.And(a, b), c)),
		q(model.Or(model.Or(a), model.And(b))), q(model.And(model.Or(a, b), model.Or(a, b))), q(model.Eq("a", "0")),
		q(model.Or(a, model.Eq("a", "0"))), q(model.Not(model.Eq("a", "nope"))),
		c03Query{Expr: model.Not(a), GroupBy: []string{"a", "b"}},
	)
}

func c03Base() []c03Query {
	a, b, c := model.Eq("a", "1"), model.Eq("b", "1"), model.Eq("c", "1")
	q := func(e *model.Expr) c03Query { return c03Query{Expr: e} }
	return []c03Query{
		q(a), q(b), q(c), q(model.Not(a)), q(model.Not(model.Not(a))),
		q(model.And(a, b)), q(model.And(b, a)), q(model.And(a, a)), q(model.And(a, a, b)), q(model.And(b)),
		q(model.And(model.Or(a, c), model.Or(b, c))), q(model.And(model.Not(a), model.Not(b))),
		q(model.Or(model.And(a, b), c)), q(model.And(a, model.Or(b, c))), q(model.Or(a)), q(model.Or(a, b)),
		{Expr: model.Or(a, c), GroupBy: []string{"b", "c"}},
	}
}

type c03Cfg struct {
	Preload bool   `json:"preload"`
	Cache   string `json:"cache"` // none | lru0 | lru1 | lru3 | ample
}

func (c c03Cfg) String() string { return fmt.Sprintf("preload=%v cache=%s", c.Preload, c.Cache) }

type c03World struct {
	cfg     c03Cfg
	idx     *updog.Index
	sw      *swapCache
	path    string
	cap     uint64
	data    *model.Data
	preSum0 string
	ref     *updog.Index
}

func c03Capacity(name string, leafSize uint64) (uint64, bool) {
	switch name {
	case "none":
		return 0, false
	case "lru0":
		return 0, true
	case "lrutight":
		// holds a leaf bitmap and nothing bigger: results of different sizes are "too big for the whole cache" or not
		return leafSize + c03Overhead(), true
	case "lru1":
		return leafSize + 72 + 40, true
	case "lru3":
		return 3*(leafSize+72) + 60, true
	}
	return 1 << 30, true
}

// c03Overhead measures what the LRU cache charges per entry on top of the bitmap: the smallest capacity at which an
// empty bitmap is kept.
func c03Overhead() uint64 {
	empty := roaring.New()
	for o := uint64(0); o < 4096; o++ {
		c := updog.NewLRUCache(empty.GetSizeInBytes() + o)
		c.Put(1, empty)
		if _, ok := c.Get(1); ok {
			return o
		}
	}
	return 72
}

func newC03World(ctx *rt.Ctx, cfg c03Cfg) *c03World {
	rows := truthRows()
	p, _, err := ix.Build(ctx.Scratch, rows, ix.MemFile)
	if err != nil {
		rt.Harnessf("build: %v", err)
	}
	w := &c03World{cfg: cfg, sw: &swapCache{}, path: p, data: model.FromRows(rows)}
	// "none" means really none: the index is opened without any cache option (the built-in no-op cache), not with a
	// wrapper that happens to hold nothing
	var cache updog.Cache
	if cfg.Cache != "none" {
		cache = w.sw
	}
	w.idx, err = ix.Open(p, cfg.Preload, cache)
	if err != nil {
		rt.Harnessf("open: %v", err)
	}
	// measure a leaf bitmap to place the small capacities
	res := &capture{}
	if cfg.Cache != "none" {
		w.sw.inner = res
		w.idx.Execute(&updog.Query{Expr: model.Eq("a", "1").Updog()})
		w.sw.inner = nil
	}
	var leaf uint64 = 100
	if res.last != nil {
		leaf = res.last.GetSizeInBytes()
	}
	w.cap, _ = c03Capacity(cfg.Cache, leaf)
	w.preSum0 = preloadedChecksum(w.idx)
	return w
}

type capture struct{ last *roaring.Bitmap }

func (c *capture) Get(uint64) (*roaring.Bitmap, bool) { return nil, false }
func (c *capture) Put(_ uint64, bm *roaring.Bitmap)   { c.last = bm }

func (w *c03World) close() {
	w.idx.Close()
	removeFile(w.path)
	if w.ref != nil {
		w.ref.Close()
		removeFile(w.path + ".ref")
	}
}

func (w *c03World) refPath() string {
	b, _ := os.ReadFile(w.path)
	os.WriteFile(w.path+".ref", b, 0o644)
	return w.path + ".ref"
}

func hasEmptyOp(e *model.Expr) bool {
	if (e.Op == "and" || e.Op == "or") && len(e.Kids) == 0 {
		return true
	}
	for _, k := range e.Kids {
		if hasEmptyOp(k) {
			return true
		}
	}
	return false
}

func (w *c03World) fresh() *updog.LRUCache {
	if w.cfg.Cache == "none" {
		w.sw.inner = nil
		return nil
	}
	c := updog.NewLRUCache(w.cap)
	w.sw.inner = c
	return c
}

func bmSum(bm *roaring.Bitmap) uint64 {
	if bm == nil {
		return 0
	}
	h := fnv.New64a()
	b, _ := bm.ToBytes()
	h.Write(b)
	return h.Sum64()
}

// preloadedChecksum hashes the content of every preloaded bitmap ("" when not preloaded / cannot bind).
func preloadedChecksum(idx *updog.Index) (out string) {
	defer func() {
		if recover() != nil {
			out = "?"
		}
	}()
	v := reflect.ValueOf(idx).Elem().FieldByName("values")
	if !v.IsValid() || v.IsNil() {
		return ""
	}
	cg := v.Elem() // *preloadedColGetter or *onDemandColGetter
	if cg.Kind() != reflect.Ptr {
		return ""
	}
	mf := cg.Elem().FieldByName("values")
	if !mf.IsValid() || mf.Kind() != reflect.Map {
		return ""
	}
	m := *(*map[uint64]*roaring.Bitmap)(unsafe.Pointer(mf.UnsafeAddr()))
	var keys []uint64
	for k := range m {
		keys = append(keys, k)
	}
	sort.Slice(keys, func(i, j int) bool { return keys[i] < keys[j] })
	h := fnv.New64a()
	for _, k := range keys {
		fmt.Fprintf(h, "%d:%d;", k, bmSum(m[k]))
	}
	return fmt.Sprintf("%x", h.Sum64())
}

// cacheDump: (key, content checksum) of every cached entry in recency order (sorted for the ample cache,
// where order cannot matter because nothing is ever evicted).
func cacheDump(c *updog.LRUCache, sorted bool) (out string) {
	if c == nil {
		return "-"
	}
	defer func() {
		if recover() != nil {
			out = ""
		}
	}()
	v := reflect.ValueOf(c).Elem()
	lf := v.FieldByName("lruList")
	if !lf.IsValid() {
		return ""
	}
	l := *(**list.List)(unsafe.Pointer(lf.UnsafeAddr()))
	var ents []string
	for e := l.Front(); e != nil; e = e.Next() {
		it := reflect.ValueOf(e.Value).Elem()
		bmf := it.FieldByName("bm")
		bm := *(**roaring.Bitmap)(unsafe.Pointer(bmf.UnsafeAddr()))
		ents = append(ents, fmt.Sprintf("%x:%x", it.FieldByName("key").Uint(), bmSum(bm)))
	}
	if sorted {
		sort.Strings(ents)
	}
	return strings.Join(ents, ",") + "."
}

type c03Case struct {
	Cfg      c03Cfg        `json:"cfg"`
	History  []int         `json:"history,omitempty"` // indexes into the alphabet
	Pair     []*model.Expr `json:"pair,omitempty"`
	Extended bool          `json:"extended,omitempty"`
	AndNot   bool          `json:"andnot,omitempty"`
	Grouped  bool          `json:"grouped,omitempty"`
	Prefix   bool          `json:"prefix,omitempty"`
	Big      int           `json:"big,omitempty"`
	Edit     []int         `json:"edit,omitempty"`
	EditTo   []string      `json:"edit_to,omitempty"`
}

func (c c03Case) sig() string {
	if c.Pair != nil {
		return fmt.Sprintf("%s pair: %s THEN %s", c.Cfg, c.Pair[0], c.Pair[1])
	}
	al := c03Alphabet()
	var s []string
	for _, i := range c.History {
		q := al[i]
		t := q.Expr.String()
		if len(q.GroupBy) > 0 {
			t += " ;" + strings.Join(q.GroupBy, ",")
		}
		s = append(s, t)
	}
	return fmt.Sprintf("%s history: %s", c.Cfg, strings.Join(s, " THEN "))
}

func (w *c03World) want(q c03Query) string {
	if hasEmptyOp(q.Expr) {
		// operators without operands are outside the reference model (C01 excludes them): the oracle is what the
		// property literally names, a freshly opened index without cache
		if w.ref == nil {
			var err error
			if w.ref, err = ix.Open(w.refPath(), false, nil); err != nil {
				rt.Harnessf("reference index: %v", err)
			}
		}
		r, _ := safeExec(w.ref, &updog.Query{Expr: q.Expr.Updog(), GroupBy: append([]string{}, q.GroupBy...)})
		return r
	}
	sel, err := w.data.Eval(q.Expr)
	if err != nil {
		return "error"
	}
	g, err := w.data.GroupBy(sel, q.GroupBy)
	if err != nil {
		return "error"
	}
	return fmt.Sprintf("count=%d groups=%s nil=%v", sel.Count(), groupsString(g), g == nil)
}

// play executes a history on a fresh cache; checks the last step (or all) against the model (== what a fresh
// uncached index returns, which C01/C02 establish and which is re-checked here with cache "none").
func (w *c03World) play(hist []int, onlyLast bool) (string, string) {
	al := c03Alphabet()
	c := w.fresh()
	for n, qi := range hist {
		q := al[qi]
		got, _ := safeExec(w.idx, &updog.Query{Expr: q.Expr.Updog(), GroupBy: append([]string{}, q.GroupBy...)})
		if onlyLast && n < len(hist)-1 {
			continue
		}
		if want := w.want(q); got != want {
			return fmt.Sprintf("query %d of the history returned %s, a fresh uncached index returns %s", n+1, got, want), ""
		}
	}
	ps := preloadedChecksum(w.idx)
	if ps != w.preSum0 {
		return "the preloaded bitmaps were modified by evaluating the history", ""
	}
	return "", cacheDump(c, w.cfg.Cache == "ample") + ps
}

type c03Args struct {
	Cfg      c03Cfg `json:"cfg"`
	Mode     string `json:"mode"` // bfs | pairs
	MaxDepth int    `json:"max_depth"`
	Depth    int    `json:"depth"`
	Arity    int    `json:"arity"`
	Extended bool   `json:"extended"`
	AndNot   bool   `json:"andnot"`
	Grouped  bool   `json:"grouped,omitempty"`
}

func c03Worker(ctx *rt.Ctx, job *rt.Job) []*rt.Violation {
	flk.Sequential(true) // single goroutine: a lock of updog or bbolt that cannot be taken now never will be (reported as a hang)
	var a c03Args
	job.Decode(&a)
	c03Extended, c03AndNot, c03Grouped = a.Extended, a.AndNot, a.Grouped
	w := newC03World(ctx, a.Cfg)
	defer w.close()
	if a.Mode == "pairs" {
		return c03Pairs(ctx, job, a, w)
	}
	al := c03Alphabet()
	seen := map[string]bool{}
	_, k0 := w.play(nil, true)
	bind := k0 != "" || a.Cfg.Cache == "none"
	seen[k0] = true
	ctx.Cov.Add("states", 1)
	frontier := [][]int{nil}
	depth := 0
	for len(frontier) > 0 {
		depth++
		if (a.MaxDepth > 0 && depth > a.MaxDepth) || (!bind && depth > 3) {
			ctx.Cov.Cap(fmt.Sprintf("%s: depth cap %d", a.Cfg, depth-1))
			break
		}
		var next [][]int
		for _, h := range frontier {
			for qi := range al {
				hist := append(append([]int{}, h...), qi)
				viol, key := w.play(hist, true)
				ctx.Cov.Add("transitions", 1)
				ctx.Cov.Add("traces_validated_against_impl", 1)
				if viol != "" {
					c := c03Case{Cfg: a.Cfg, History: hist, Extended: a.Extended, AndNot: a.AndNot, Grouped: a.Grouped}
					return []*rt.Violation{rt.NewViolation("C03", "history", c.sig(), c, "%s", viol)}
				}
				if !bind {
					key = fmt.Sprint(hist)
				}
				if !seen[key] {
					seen[key] = true
					ctx.Cov.Add("states", 1)
					next = append(next, hist)
					if len(hist) == 3 {
						ctx.Cov.Sample(1, map[string]any{"config": a.Cfg.String(), "history": c03Case{Cfg: a.Cfg, History: hist}.sig()})
					}
				}
			}
			if ctx.Expired() {
				ctx.Cov.Cap(fmt.Sprintf("%s: deadline at depth %d", a.Cfg, depth))
				return nil
			}
		}
		frontier = next
		ctx.Cov.Max("max_depth", int64(depth))
	}
	return nil
}

func c03Pairs(ctx *rt.Ctx, job *rt.Job, a c03Args, w *c03World) []*rt.Violation {
	trees := model.Trees(truthLeaves(), a.Depth, a.Arity)
	want := make([]uint64, len(trees))
	uex := make([]updog.Expression, len(trees))
	for i, t := range trees {
		want[i], _ = w.data.Count(t)
		uex[i] = t.Updog()
	}
	for i := range trees {
		if i%job.NShards != job.Shard {
			continue
		}
		if ctx.Expired() {
			ctx.Cov.Cap(fmt.Sprintf("pairs: deadline at first element %d of %d", i, len(trees)))
			break
		}
		for j := range trees {
			w.fresh()
			r1, e1 := w.idx.Execute(&updog.Query{Expr: uex[i]})
			r2, e2 := w.idx.Execute(&updog.Query{Expr: uex[j]})
			ctx.Cov.Add("pairs", 1)
			ctx.Cov.Add("traces_validated_against_impl", 1)
			if e1 != nil || e2 != nil || r1.Count != want[i] || r2.Count != want[j] {
				c := c03Case{Cfg: a.Cfg, Pair: []*model.Expr{trees[i], trees[j]}}
				return []*rt.Violation{rt.NewViolation("C03", "pair", c.sig(), c, "after %s the query %s returned %v (err %v), uncached answer is %d", trees[i], trees[j], r2, e2, want[j])}
			}
		}
	}
	if job.Shard == 0 {
		ctx.Cov.Note("pair_space", fmt.Sprintf("all ordered pairs of the %d trees of depth<=%d arity<=%d over 3 leaves, each pair on a fresh ample LRU cache", len(trees), a.Depth, a.Arity))
		ctx.Cov.Sample(1, map[string]any{"pair": []string{trees[len(trees)-1].String(), trees[len(trees)/2].String()}})
	}
	return nil
}

// c03BigPreload: an index with 2500 distinct values: every value's count and the per-column group-by must be the same
// on demand, preloaded, and preloaded+cached (the quantifier's "whether or not data is preloaded" on an index whose
// preload crosses any batching the loader may do).
func c03BigPreload(ctx *rt.Ctx) *rt.Violation {
	n := 2500
	rowf := func(i int) model.Row { return model.Row{"v": strconv.Itoa(i), "k": strconv.Itoa(i % 3)} }
	p, _, err := ix.BuildFunc(ctx.Scratch, n, rowf, ix.MemFile)
	if err != nil {
		rt.Harnessf("build: %v", err)
	}
	defer removeFile(p)
	render := func(pre bool, cache updog.Cache) (out []string) {
		idx, err := ix.Open(p, pre, cache)
		if err != nil {
			return []string{"open error " + err.Error()}
		}
		defer idx.Close()
		for i := 0; i < n; i++ {
			r, _ := safeExec(idx, &updog.Query{Expr: model.Eq("v", strconv.Itoa(i)).Updog()})
			out = append(out, r)
		}
		r, _ := safeExec(idx, &updog.Query{Expr: model.Not(model.Eq("k", "9")).Updog(), GroupBy: []string{"v"}})
		return append(out, r)
	}
	base := render(false, nil)
	for _, cfg := range []string{"preloaded", "preloaded+lru"} {
		var c updog.Cache
		if cfg == "preloaded+lru" {
			c = updog.NewLRUCache(1 << 20)
		}
		got := render(true, c)
		ctx.Cov.Add("bigpreload_probes", int64(len(got)))
		for i := range base {
			if i >= len(got) || got[i] != base[i] {
				cs := c03Case{Cfg: c03Cfg{Preload: true, Cache: cfg}, Big: i}
				return rt.NewViolation("C03", "bigpreload", fmt.Sprintf("bigpreload cfg=%s probe=%d", cfg, i), cs, "on a 2500-value index, probe %d (value v=%d or the group-by) returns %s %s, on demand it returns %s", i, i, trunc(got[i]), cfg, trunc(base[i]))
			}
		}
	}
	return nil
}

// c03Prefix: leaves whose column+value concatenations coincide ("a"+"bc" == "ab"+"c", "a"+"b" == "ab"+"") must never
// share a cache entry: every ordered pair of such leaves (plain, negated, and inside AND/OR) on a cached index.
func c03Prefix(ctx *rt.Ctx) *rt.Violation {
	rows := []model.Row{{"a": "b"}, {"a": "bc", "ab": "c"}, {"ab": ""}, {"a": "b", "ab": "c"}, {"ab": "c"}, {"a": "bc"}, {}, {"a": "b\x00c"}}
	p, _, err := ix.Build(ctx.Scratch, rows, ix.MemFile)
	if err != nil {
		rt.Harnessf("build: %v", err)
	}
	defer removeFile(p)
	d := model.FromRows(rows)
	// the last two: a value containing NUL, and a column that occurs in NO row whose name+NUL+value spells the same bytes
	// (must stay an error whatever was cached before)
	lv := []*model.Expr{model.Eq("a", "b"), model.Eq("ab", ""), model.Eq("a", "bc"), model.Eq("ab", "c"), model.Eq("a", "b\x00c"), model.Eq("a\x00b", "c")}
	var qs []*model.Expr
	for _, l := range lv {
		qs = append(qs, l, model.Not(l), model.And(l, lv[0]), model.Or(l, lv[3]))
	}
	for _, pre := range []bool{false, true} {
		sw := &swapCache{}
		idx, err := ix.Open(p, pre, sw)
		if err != nil {
			rt.Harnessf("open: %v", err)
		}
		for _, q1 := range qs {
			for _, q2 := range qs {
				sw.inner = updog.NewLRUCache(1 << 20)
				execCount(idx, q1.Updog())
				ctx.Cov.Add("prefix_leaf_pairs", 1)
				ctx.Cov.Add("traces_validated_against_impl", 1)
				if m := compareCount(d, q2, idx, q2.Updog()); m != "" {
					idx.Close()
					cs := c03Case{Cfg: c03Cfg{Preload: pre, Cache: "ample"}, Pair: []*model.Expr{q1, q2}, Prefix: true}
					return rt.NewViolation("C03", "prefix", fmt.Sprintf("prefix-leaves preload=%v pair: %s THEN %s", pre, q1, q2), cs, "on a cached index with prefix-related column names, after %s the query %s gives: %s", q1, q2, m)
				}
			}
		}
		idx.Close()
	}
	return nil
}

// c03Edited: the same expression OBJECT executed again after the caller edited it in place (exported fields): the
// second execution must answer the edited expression, not a cached answer of the old one.
func c03Edited(ctx *rt.Ctx) *rt.Violation {
	var cfgs []c03Cfg
	for _, pre := range []bool{false, true} {
		for _, cn := range []string{"ample", "lru3"} {
			cfgs = append(cfgs, c03Cfg{Preload: pre, Cache: cn})
		}
	}
	return c03EditedCfg(ctx, cfgs)
}

func c03EditedCfg(ctx *rt.Ctx, cfgs []c03Cfg) *rt.Violation {
	{
		for _, cfg := range cfgs {
			w := newC03World(ctx, cfg)
			vals := []string{"1", "0", "zz"}
			cols := []string{"a", "b", "c"}
			build := func(shape int) (updog.Expression, []*updog.ExprEqual) {
				l1, l2 := &updog.ExprEqual{Column: "a", Value: "1"}, &updog.ExprEqual{Column: "b", Value: "1"}
				switch shape {
				case 0:
					return &updog.ExprAnd{Exprs: []updog.Expression{l1, l2}}, []*updog.ExprEqual{l1, l2}
				case 1:
					return &updog.ExprOr{Exprs: []updog.Expression{l1, &updog.ExprNot{Expr: l2}}}, []*updog.ExprEqual{l1, l2}
				default:
					return &updog.ExprNot{Expr: &updog.ExprAnd{Exprs: []updog.Expression{&updog.ExprOr{Exprs: []updog.Expression{l1}}, l2}}}, []*updog.ExprEqual{l1, l2}
				}
			}
			toModel := func(shape int, l []*updog.ExprEqual) *model.Expr {
				m1, m2 := model.Eq(l[0].Column, l[0].Value), model.Eq(l[1].Column, l[1].Value)
				switch shape {
				case 0:
					return model.And(m1, m2)
				case 1:
					return model.Or(m1, model.Not(m2))
				default:
					return model.Not(model.And(model.Or(m1), m2))
				}
			}
			for shape := 0; shape < 3; shape++ {
				for leaf := 0; leaf < 2; leaf++ {
					for _, col := range cols {
						for _, val := range vals {
							w.fresh()
							e, leaves := build(shape)
							first, _ := safeExec(w.idx, &updog.Query{Expr: e})
							leaves[leaf].Column, leaves[leaf].Value = col, val
							second, _ := safeExec(w.idx, &updog.Query{Expr: e})
							ctx.Cov.Add("edited_tree_cases", 1)
							ctx.Cov.Add("traces_validated_against_impl", 1)
							want := w.want(c03Query{Expr: toModel(shape, leaves)})
							if second != want {
								w.close()
								cs := c03Case{Cfg: w.cfg, Edit: []int{shape, leaf}, EditTo: []string{col, val}}
								return rt.NewViolation("C03", "edited", fmt.Sprintf("%s edited-tree shape=%d leaf=%d -> %s=%q", w.cfg, shape, leaf, col, val), cs, "an expression object was executed (%s), then one of its leaves was changed to %s=%q and it was executed again: got %s, a fresh uncached index returns %s", first, col, val, second, want)
							}
						}
					}
				}
			}
			w.close()
		}
	}
	return nil
}

func c03Run(ctx *rt.Ctx) []*rt.Violation {
	var jobs []rt.Job
	for _, pre := range []bool{false, true} {
		for _, c := range []string{"ample", "lru3", "lru1", "lrutight", "lru0", "none"} {
			{
				b, _ := json.Marshal(c03Args{Cfg: c03Cfg{Preload: pre, Cache: c}, Mode: "bfs", AndNot: true})
				jobs = append(jobs, rt.Job{Name: "bfs-andnot-" + c, Args: b})
			}
			{
				b, _ := json.Marshal(c03Args{Cfg: c03Cfg{Preload: pre, Cache: c}, Mode: "bfs", Grouped: true})
				jobs = append(jobs, rt.Job{Name: "bfs-grouped-" + c, Args: b})
			}
			a := c03Args{Cfg: c03Cfg{Preload: pre, Cache: c}, Mode: "bfs"}
			if ctx.Thorough() {
				// base alphabet to fixpoint (as in quick) and the extended alphabet: to fixpoint for the small caches,
				// depth-capped for the ample cache (whose states are subsets of ~60 cacheable sub-expressions)
				b, _ := json.Marshal(a)
				jobs = append(jobs, rt.Job{Name: "bfs-" + a.Cfg.String(), Args: b})
				a.Extended = true
				if c == "ample" {
					a.MaxDepth = 3
				}
			}
			b, _ := json.Marshal(a)
			jobs = append(jobs, rt.Job{Name: "bfs-" + a.Cfg.String(), Args: b})
		}
	}
	pd, ar, sh := 1, 3, 4
	if ctx.Thorough() {
		pd, ar, sh = 2, 2, 32
	}
	for _, pre := range []bool{false, true} {
		b, _ := json.Marshal(c03Args{Cfg: c03Cfg{Preload: pre, Cache: "ample"}, Mode: "pairs", Depth: pd, Arity: ar})
		for s := 0; s < sh; s++ {
			jobs = append(jobs, rt.Job{Name: "pairs", Shard: s, NShards: sh, Args: b})
		}
	}
	outs := rt.RunJobs(ctx, jobs, rt.SpawnOpt{})
	vs := rt.Collect(ctx, outs, nil)
	if v := c03BigPreload(ctx); v != nil {
		vs = append(vs, v)
	}
	if v := c03Edited(ctx); v != nil {
		vs = append(vs, v)
	}
	if v := c03Prefix(ctx); v != nil {
		vs = append(vs, v)
	}
	ctx.Cov.Note("alphabet", fmt.Sprintf("%d queries over leaves a,b,c of the truth-table dataset (count identifies the boolean function), incl. permuted/duplicated operands, single-operand AND/OR, NOT pairs, one grouped query", len(c03Alphabet())))
	ctx.Cov.Note("rule", "BFS over query histories per configuration {on-demand,preloaded} x {no cache, LRU 0, ~1 entry, ~3 entries, ample}; state = (cache key, content checksum) of every cached entry in recency order + checksum of all preloaded bitmaps; every transition's result compared with the uncached answer; plus all ordered query pairs of a tree space on a fresh ample cache; plus a 2500-value index probed value by value on demand vs preloaded vs preloaded+cached; plus expression objects executed, edited in place (every leaf x column x value) and executed again")
	ctx.Assumef("cache keys are compared up to 64-bit collisions of the hash function (property text)")
	ctx.Assumef("the future of an index+cache depends only on the cached (key, content) list in recency order and the preloaded bitmap contents (state merging)")
	return vs
}

func c03Replay(ctx *rt.Ctx, v *rt.Violation) *rt.Violation {
	if v.Kind == "bigpreload" {
		return c03BigPreload(ctx)
	}
	if v.Kind == "edited" {
		return c03Edited(ctx)
	}
	if v.Kind == "prefix" {
		return c03Prefix(ctx)
	}
	var c c03Case
	if err := json.Unmarshal(v.Case, &c); err != nil {
		rt.Harnessf("case: %v", err)
	}
	c03Extended, c03AndNot, c03Grouped = c.Extended, c.AndNot, c.Grouped
	w := newC03World(ctx, c.Cfg)
	defer w.close()
	if c.Pair != nil {
		w.fresh()
		w.idx.Execute(&updog.Query{Expr: c.Pair[0].Updog()})
		r2, e2 := w.idx.Execute(&updog.Query{Expr: c.Pair[1].Updog()})
		want, _ := w.data.Count(c.Pair[1])
		if e2 != nil || r2.Count != want {
			return rt.NewViolation("C03", "pair", c.sig(), c, "second query returned %v (err %v), uncached answer is %d", r2, e2, want)
		}
		return nil
	}
	for n := 1; n <= len(c.History); n++ {
		if viol, _ := w.play(c.History[:n], true); viol != "" {
			cc := c03Case{Cfg: c.Cfg, History: c.History[:n], Extended: c.Extended, AndNot: c.AndNot, Grouped: c.Grouped}
			return rt.NewViolation("C03", "history", cc.sig(), cc, "%s", viol)
		}
	}
	return nil
}

func init() {
	register(&Property{ID: "C03", Level: "model_checking", Run: c03Run, Worker: c03Worker, Replay: c03Replay})
}
