package props

import (
	"container/list"
	"context"
	"encoding/json"
	"fmt"
	"os"
	"path/filepath"
	"reflect"
	"regexp"
	"sort"
	"strconv"
	"sync"
	"time"
	"unsafe"

	updogv1 "github.com/akrennmair/updog/proto/updog/v1"

	"github.com/RoaringBitmap/roaring"
	"github.com/akrennmair/updog"
	"github.com/akrennmair/updog/zzverif/ix"
	"github.com/akrennmair/updog/zzverif/model"
	"github.com/akrennmair/updog/zzverif/rt"
	"github.com/akrennmair/updog/zzverif/vsched"
)

// C04 — concurrent queries: every interleaving (within a preemption bound) of real goroutines calling
// Execute / GetSchema on one open index, or Get/Put on one LRUCache, with the race detector live.

type c04Params struct {
	Scenario string `json:"s"` // S1 S2 S3 S4
	Preload  bool   `json:"preload"`
	Cache    string `json:"cache"` // none | tiny | ample
}

type c04World struct {
	idx  *updog.Index
	sw   *swapCache
	data *model.Data
	path string
	leaf uint64
}

func newC04World(ctx *rt.Ctx, p c04Params) *c04World {
	rows := truthRows()
	path, _, err := ix.Build(ctx.Scratch, rows, ix.MemFile)
	if err != nil {
		rt.Harnessf("build: %v", err)
	}
	w := &c04World{sw: &swapCache{}, data: model.FromRows(rows), path: path}
	var cache updog.Cache // "none" = opened without a cache option at all
	if p.Cache != "none" {
		cache = w.sw
	}
	w.idx, err = ix.Open(path, p.Preload, cache)
	if err != nil {
		rt.Harnessf("open: %v", err)
	}
	cp := &capture{}
	if p.Cache != "none" {
		w.sw.inner = cp
		w.idx.Execute(&updog.Query{Expr: model.Eq("a", "1").Updog()})
		w.sw.inner = nil
	}
	w.leaf = 100
	if cp.last != nil {
		w.leaf = cp.last.GetSizeInBytes()
	}
	return w
}

func (w *c04World) freshCache(kind string) *updog.LRUCache {
	switch kind {
	case "none":
		w.sw.inner = nil
		return nil
	case "tiny":
		c := updog.NewLRUCache(w.leaf + 72 + 40)
		w.sw.inner = c
		return c
	}
	c := updog.NewLRUCache(1 << 30)
	w.sw.inner = c
	return c
}

func c04Threads(s string) [][]c03Query {
	a, b, c := model.Eq("a", "1"), model.Eq("b", "1"), model.Eq("c", "1")
	q := func(e *model.Expr) c03Query { return c03Query{Expr: e} }
	switch s {
	case "S1": // two Executes with overlapping sub-expressions
		// values that occur in no row are part of both queries (an absent value must not make the shared state writable)
		return [][]c03Query{{q(model.And(a, model.Not(b), model.Not(model.Eq("b", "nope"))))}, {q(model.Or(model.Not(b), a, model.Eq("a", "zz")))}}
	case "S2": // hit after miss, eviction in flight
		return [][]c03Query{{q(model.And(a, b)), q(a)}, {q(b), q(model.And(a, b))}}
	case "S7": // both threads: the same failing compound expression (a column that occurs in no row below two operators), then
		// a grouped query; the two grouped queries use ONE group-by slice (a caller may share what Execute only reads)
		bad := model.And(a, model.Or(model.Eq("nosuch", "1"), b))
		return [][]c03Query{{q(bad), {Expr: model.Or(a, b), GroupBy: []string{"b", "c", "b"}}}, {q(bad), {Expr: model.Not(a), GroupBy: []string{"b", "c", "b"}}}}
	case "S8": // ONE expression object (an operator tree) in two Query values executed at the same time: grouped by the
		// columns b, c in one thread and by the single (unknown) column "b,c" in the other: the second must fail, the
		// first must not care, and Execute must not write to the tree it is given
		shared := model.Or(model.And(a, model.Not(b)), model.Not(c))
		return [][]c03Query{{{Expr: shared, GroupBy: []string{"b", "c"}}}, {{Expr: shared, GroupBy: []string{"b,c"}}, {Expr: shared, GroupBy: []string{"c"}}}}
	case "S3": // two Executes and a schema read
		return [][]c03Query{{q(model.Not(model.Or(a, model.Eq("c", "absent"))))}, {{Expr: model.Or(a, c, model.Eq("b", "absent")), GroupBy: []string{"b"}}}, nil}
	}
	panic("scenario")
}

// lruOverhead measures the per-entry overhead the cache accounts for (calibrated on a fresh cache holding one entry).
func lruOverhead() uint64 {
	if lruOverheadVal != 0 {
		return lruOverheadVal
	}
	c := updog.NewLRUCache(1 << 30)
	bm := lruBitmap(1, 1)
	c.Put(1, bm)
	cs := reflect.ValueOf(c).Elem().FieldByName("curSize")
	lruOverheadVal = cs.Uint() - bm.GetSizeInBytes()
	return lruOverheadVal
}

var lruOverheadVal uint64

// lruInvariant checks the structural invariant of a quiescent LRUCache ("" if fine or cannot bind).
func lruInvariant(c *updog.LRUCache) (out string) {
	if c == nil {
		return ""
	}
	defer func() {
		if recover() != nil {
			out = ""
		}
	}()
	v := reflect.ValueOf(c).Elem()
	lf, ef, cs, ms := v.FieldByName("lruList"), v.FieldByName("entries"), v.FieldByName("curSize"), v.FieldByName("maxSize")
	if !lf.IsValid() || !ef.IsValid() || !cs.IsValid() {
		return ""
	}
	l := *(**list.List)(unsafe.Pointer(lf.UnsafeAddr()))
	if l.Len() != ef.Len() {
		return fmt.Sprintf("LRU list has %d elements but the map has %d", l.Len(), ef.Len())
	}
	var sum uint64
	seen := map[uint64]bool{}
	for e := l.Front(); e != nil; e = e.Next() {
		it := reflect.ValueOf(e.Value).Elem()
		k := it.FieldByName("key").Uint()
		if seen[k] {
			return fmt.Sprintf("key %x is twice in the LRU list", k)
		}
		seen[k] = true
		sum += it.FieldByName("size").Uint() + lruOverhead()
	}
	if sum != cs.Uint() {
		return fmt.Sprintf("accounted size %d differs from the sum over entries %d", cs.Uint(), sum)
	}
	if ms.IsValid() && cs.Uint() > ms.Uint() {
		return fmt.Sprintf("accounted size %d exceeds the maximum %d", cs.Uint(), ms.Uint())
	}
	return ""
}

// c04Epoch numbers the executions of a worker; the values that occur in no row ("zz", "nope", "absent") are spelled
// differently in every execution, so that whatever the code under test memoises process-wide by expression content is
// cold for them in every explored schedule (the answers do not depend on the spelling of an absent value).
var c04Epoch int

var c04KeyRE = regexp.MustCompile(`[0-9a-f]+:`)

func freshAbsent(e *model.Expr, epoch int) *model.Expr {
	switch e.Op {
	case "eq":
		if e.Val == "zz" || e.Val == "nope" || e.Val == "absent" {
			return model.Eq(e.Col, e.Val+strconv.Itoa(epoch))
		}
		return e
	}
	k := make([]*model.Expr, len(e.Kids))
	for i, x := range e.Kids {
		k[i] = freshAbsent(x, epoch)
	}
	return &model.Expr{Op: e.Op, Kids: k}
}

func c04Scenario(w *c04World, p c04Params, outcome *string) vsched.Scenario {
	al := c04Threads(p.Scenario)
	want := make([][]string, len(al))
	for t, qs := range al {
		for _, q := range qs {
			sel, err := w.data.Eval(q.Expr)
			if err != nil {
				want[t] = append(want[t], "error")
				continue
			}
			g, gerr := w.data.GroupBy(sel, q.GroupBy)
			if gerr != nil {
				want[t] = append(want[t], "error")
				continue
			}
			want[t] = append(want[t], fmt.Sprintf("count=%d groups=%s nil=%v", sel.Count(), groupsString(g), g == nil))
		}
	}
	sharedGB := []string{"b", "c", "b"}
	wantSchema := w.data.Schema()
	return func() ([]func(), func(*vsched.Result) string) {
		c04Epoch++
		cache := w.freshCache(p.Cache)
		var sharedExpr updog.Expression
		if p.Scenario == "S8" {
			sharedExpr = al[0][0].Expr.Updog()
		}
		got := make([][]string, len(al))
		var schemas [][][]string
		var bodies []func()
		for t, qs := range al {
			t, qs := t, qs
			if qs == nil {
				bodies = append(bodies, func() {
					schemas = append(schemas, schemaOf(w.idx))
					schemas = append(schemas, schemaOf(w.idx))
				})
				continue
			}
			bodies = append(bodies, func() {
				for _, q := range qs {
					gb := append([]string{}, q.GroupBy...)
					if p.Scenario == "S7" && len(gb) > 0 {
						gb = sharedGB
					}
					ex := freshAbsent(q.Expr, c04Epoch).Updog()
					if sharedExpr != nil {
						ex = sharedExpr
					}
					res, err := w.idx.Execute(&updog.Query{Expr: ex, GroupBy: gb})
					got[t] = append(got[t], renderResult(res, err))
				}
			})
		}
		check := func(r *vsched.Result) string {
			for t := range al {
				for i := range want[t] {
					if i >= len(got[t]) || got[t][i] != want[t][i] {
						return fmt.Sprintf("thread %d call %d returned %v, alone it returns %s", t, i+1, got[t], want[t][i])
					}
				}
			}
			for _, s := range schemas {
				if !reflect.DeepEqual(s, wantSchema) {
					return fmt.Sprintf("GetSchema returned %v", s)
				}
			}
			if fmt.Sprint(sharedGB) != "[b c b]" {
				return fmt.Sprintf("the group-by list passed to Execute was changed to %v", sharedGB)
			}
			if m := lruInvariant(cache); m != "" {
				return "LRU cache corrupted after the run: " + m
			}
			// outcome class: the contents (not the keys, which contain this execution's spelling of absent values) of the
			// cache in recency order
			*outcome = c04KeyRE.ReplaceAllString(cacheDump(cache, false), "")
			return ""
		}
		return bodies, check
	}
}

// ---- S4: the LRU cache used directly from several goroutines -----------------------------

type lruEvent struct {
	Thread    int
	Get       bool
	Key       uint64
	Val       int // bitmap id stored / returned (0 = miss)
	Call, Ret int
}

func c04S4(p c04Params, outcome *string) vsched.Scenario {
	bms := []*roaring.Bitmap{nil, lruBitmap(1, 1), lruBitmap(1, 2), lruBitmap(2, 3), lruBitmap(1, 1)}
	idOf := func(b *roaring.Bitmap) int {
		for i, x := range bms {
			if i > 0 && x == b {
				return i
			}
		}
		if b == nil {
			return 0
		}
		return -1
	}
	type op struct {
		get bool
		key uint64
		val int
	}
	prog := [][]op{
		{{false, 1, 1}, {true, 2, 0}, {true, 1, 0}},
		{{false, 2, 2}, {true, 1, 0}, {false, 1, 3}},
	}
	if p.Scenario == "S4b" {
		prog = [][]op{{{false, 1, 1}, {true, 2, 0}}, {{false, 2, 2}, {true, 1, 0}}, {{false, 1, 4}, {true, 1, 0}}}
	}
	capacity := uint64(1 << 30)
	if p.Cache == "tiny" {
		capacity = bms[1].GetSizeInBytes() + 72 + 10
	}
	return func() ([]func(), func(*vsched.Result) string) {
		cache := updog.NewLRUCache(capacity)
		evs := make([][]lruEvent, len(prog))
		var bodies []func()
		for t := range prog {
			t := t
			bodies = append(bodies, func() {
				for _, o := range prog[t] {
					e := lruEvent{Thread: t, Get: o.get, Key: o.key, Call: vsched.Tick()}
					if o.get {
						bm, ok := cache.Get(o.key)
						if ok {
							e.Val = idOf(bm)
						} else if bm != nil {
							e.Val = -2
						}
					} else {
						cache.Put(o.key, bms[o.val])
						e.Val = o.val
					}
					e.Ret = vsched.Tick()
					evs[t] = append(evs[t], e)
				}
			})
		}
		check := func(r *vsched.Result) string {
			var all []lruEvent
			for _, l := range evs {
				all = append(all, l...)
			}
			if m := lruLinearizable(all, p.Cache == "tiny"); m != "" {
				return m
			}
			if m := lruInvariant(cache); m != "" {
				return "LRU cache corrupted after the run: " + m
			}
			var s []string
			for _, e := range all {
				if e.Get {
					s = append(s, fmt.Sprintf("t%dG%d=%d", e.Thread, e.Key, e.Val))
				}
			}
			sort.Strings(s)
			*outcome = fmt.Sprint(s)
			return ""
		}
		return bodies, check
	}
}

// lruLinearizable searches a total order of the events that respects real time (a.Ret < b.Call => a before b)
// and is a run of a map (lossy=false: nothing is ever dropped; lossy=true: a Get may miss at any time, which
// then drops the key) in which every hit returns the value last stored under that key.
func lruLinearizable(evs []lruEvent, lossy bool) string {
	n := len(evs)
	used := make([]bool, n)
	var rec func(done int, st map[uint64]int) bool
	rec = func(done int, st map[uint64]int) bool {
		if done == n {
			return true
		}
		for i := 0; i < n; i++ {
			if used[i] {
				continue
			}
			// minimal: no unused event returned before this one was called
			ok := true
			for j := 0; j < n; j++ {
				if !used[j] && j != i && evs[j].Ret < evs[i].Call {
					ok = false
					break
				}
			}
			if !ok {
				continue
			}
			e := evs[i]
			cur, has := st[e.Key]
			var nst map[uint64]int
			switch {
			case !e.Get:
				nst = cloneMap(st)
				nst[e.Key] = e.Val
			case e.Val > 0:
				if !has || cur != e.Val {
					continue
				}
				nst = st
			case e.Val == 0:
				if has && !lossy {
					continue
				}
				nst = cloneMap(st)
				delete(nst, e.Key)
			default:
				continue
			}
			used[i] = true
			if rec(done+1, nst) {
				used[i] = false
				return true
			}
			used[i] = false
		}
		return false
	}
	if rec(0, map[uint64]int{}) {
		return ""
	}
	return fmt.Sprintf("the history of cache calls is not linearizable: %+v", evs)
}

func cloneMap(m map[uint64]int) map[uint64]int {
	n := make(map[uint64]int, len(m)+1)
	for k, v := range m {
		n[k] = v
	}
	return n
}

// c04Cold: every execution opens a fresh copy of the index (nothing is warmed up by an earlier execution), two or three
// threads run grouped queries over the same columns at once.
func c04Cold(ctx *rt.Ctx, p c04Params, outcome *string) vsched.Scenario {
	rows := truthRows()
	master, _, err := ix.Build(ctx.Scratch, rows, ix.MemFile)
	if err != nil {
		rt.Harnessf("build: %v", err)
	}
	mb, _ := os.ReadFile(master)
	os.Remove(master)
	data := model.FromRows(rows)
	a, c := model.Eq("a", "1"), model.Eq("c", "1")
	qs := []c03Query{{Expr: a, GroupBy: []string{"b"}}, {Expr: model.Not(c), GroupBy: []string{"b", "a"}}, {Expr: model.Or(a, c), GroupBy: []string{"b"}}}
	n := 2
	if p.Scenario == "S5b" {
		n = 3
	}
	withSchema := p.Scenario == "S6" // a third thread reads the schema while the index is still cold
	want := make([]string, n)
	for t := 0; t < n; t++ {
		sel, _ := data.Eval(qs[t].Expr)
		g, _ := data.GroupBy(sel, qs[t].GroupBy)
		want[t] = fmt.Sprintf("count=%d groups=%s nil=%v", sel.Count(), groupsString(g), g == nil)
	}
	seq := 0
	return func() ([]func(), func(*vsched.Result) string) {
		seq++
		path := filepath.Join(ctx.Scratch, fmt.Sprintf("cold-%d.updog", seq))
		os.WriteFile(path, mb, 0o644)
		var cache updog.Cache
		if p.Cache == "ample" {
			cache = updog.NewLRUCache(1 << 30)
		}
		idx, err := ix.Open(path, p.Preload, cache)
		if err != nil {
			rt.Harnessf("open: %v", err)
		}
		got := make([]string, n)
		var bodies []func()
		for t := 0; t < n; t++ {
			t := t
			bodies = append(bodies, func() {
				res, err := idx.Execute(&updog.Query{Expr: qs[t].Expr.Updog(), GroupBy: append([]string{}, qs[t].GroupBy...)})
				got[t] = renderResult(res, err)
			})
		}
		var schemas [][][]string
		if withSchema {
			bodies = append(bodies, func() {
				schemas = append(schemas, schemaOf(idx))
				schemas = append(schemas, schemaOf(idx))
			})
		}
		check := func(r *vsched.Result) string {
			idx.Close()
			os.Remove(path)
			for _, s := range schemas {
				if !reflect.DeepEqual(s, data.Schema()) {
					return fmt.Sprintf("GetSchema returned %v", s)
				}
			}
			for t := range got {
				if got[t] != want[t] {
					return fmt.Sprintf("thread %d returned %s, alone it returns %s", t, got[t], want[t])
				}
			}
			*outcome = "ok"
			return ""
		}
		return bodies, check
	}
}

func c04Worker(ctx *rt.Ctx, job *rt.Job) []*rt.Violation {
	if job.Name == "race-server" {
		return c04RaceServer(ctx)
	}
	var j e3Job
	job.Decode(&j)
	var p c04Params
	json.Unmarshal(j.Params, &p)
	var outcome string
	var sc vsched.Scenario
	if p.Scenario == "S5" || p.Scenario == "S5b" || p.Scenario == "S6" {
		return e3Explore(ctx, "C04", j, c04Cold(ctx, p, &outcome), func() string { return string(j.Params) + outcome })
	}
	if p.Scenario == "S4" || p.Scenario == "S4b" {
		sc = c04S4(p, &outcome)
	} else {
		w := newC04World(ctx, p)
		defer func() { w.idx.Close(); removeFile(w.path) }()
		sc = c04Scenario(w, p, &outcome)
	}
	return e3Explore(ctx, "C04", j, sc, func() string { return string(j.Params) + outcome })
}

// c04RaceServer: supplementary, free-running pass for the gRPC clause: the real server built with -race answers batches
// (several failing members, grouped members, long batches) and truly concurrent clients on a cold index; any report of
// the race detector in the server, a dead server or a wrong answer is a violation. Races inside one request are found
// by the happens-before detector whatever the timing; races between requests depend on the requests overlapping, which
// the enumeration below provokes but does not control (this part is not exhaustive and says so in the evidence).
func c04RaceServer(ctx *rt.Ctx) []*rt.Violation {
	bin := os.Getenv("VCHECK_UPDOG_RACE_BIN")
	if bin == "" {
		rt.Harnessf("VCHECK_UPDOG_RACE_BIN not set")
	}
	rows := c13Files()[3]
	path, _, err := ix.Build(ctx.Scratch, rows, ix.MemFile)
	if err != nil {
		rt.Harnessf("build: %v", err)
	}
	defer os.Remove(path)
	qs := c13Queries(3)
	mk := func(ids ...int) *updogv1.QueryRequest {
		r := &updogv1.QueryRequest{}
		for _, i := range ids {
			r.Queries = append(r.Queries, &updogv1.Query{Expr: toProto(qs[i].Expr), GroupBy: qs[i].GroupBy})
		}
		return r
	}
	// expected count/number of groups per query of the alphabet, from the model
	data := model.FromRows(rows)
	expect := map[int]string{}
	for i, q := range qs {
		if sel, err := data.Eval(q.Expr); err == nil {
			if g, err := data.GroupBy(sel, q.GroupBy); err == nil {
				expect[i] = fmt.Sprintf("%d/%d", sel.Count(), len(g))
			}
		}
	}
	batches := [][]int{{1}, {7, 7}, {0, 7, 7, 7}, {7, 1, 7, 2, 7}, {1, 2, 5, 6}, {6, 2, 1, 5, 0, 4, 1, 2}, {7, 7, 7, 7, 7, 7}}
	for round := 0; round < 3; round++ {
		logp := filepath.Join(ctx.Scratch, fmt.Sprintf("srvrace-%d", round))
		srv := startServerBin(bin, []string{"GORACE=log_path=" + logp + " halt_on_error=0 exitcode=0"}, path, true, round == 1)
		raced := func() string {
			m, _ := filepath.Glob(logp + ".*")
			for _, f := range m {
				if b, err := os.ReadFile(f); err == nil && len(b) > 0 {
					return trunc(string(b))
				}
			}
			return ""
		}
		// (a) concurrent clients on the cold index: grouped queries over the same columns at the same moment
		var wg sync.WaitGroup
		errs := make([]string, 4)
		for g := 0; g < 4; g++ {
			wg.Add(1)
			go func(g int) {
				defer wg.Done()
				for i := 0; i < 3; i++ {
					ids := []int{1 + g%2, 2, 5}
					resp, err := srv.query(mk(ids...))
					if err != nil {
						errs[g] = err.Error()
						continue
					}
					if len(resp.Results) != len(ids) {
						errs[g] = fmt.Sprintf("%d results for %d queries", len(resp.Results), len(ids))
						continue
					}
					for k, r := range resp.Results {
						if want := expect[ids[k]]; r.QueryId != int32(k+1) || fmt.Sprintf("%d/%d", r.TotalCount, len(r.Groups)) != want {
							errs[g] = fmt.Sprintf("result %d of a concurrent batch is id=%d %d/%d groups, expected id=%d %s", k, r.QueryId, r.TotalCount, len(r.Groups), k+1, want)
						}
					}
				}
			}(g)
		}
		wg.Wait()
		ctx.Cov.Add("race_server_requests", 12)
		// (b) batches, sequentially
		for _, b := range batches {
			srv.query(mk(b...))
			ctx.Cov.Add("race_server_requests", 1)
		}
		// (c) clients that give up early (deadlines of 0 .. 1.5 ms on an expensive batch), then the same queries with a
		// patient client: whatever an abandoned request leaves behind must not change later answers
		for i := 0; i < 60; i++ {
			cctx, cancel := context.WithTimeout(context.Background(), time.Duration(i%16)*100*time.Microsecond)
			srv.client.Query(cctx, mk(2, 1, 5, 2))
			cancel()
			ctx.Cov.Add("race_server_requests", 1)
			if i%10 == 9 {
				ids := []int{2, 1, 5}
				resp, err := srv.query(mk(ids...))
				if err != nil || len(resp.Results) != len(ids) {
					errs[0] = fmt.Sprintf("after requests abandoned by their clients a patient request failed: %v", err)
					break
				}
				for k, r := range resp.Results {
					if want := expect[ids[k]]; fmt.Sprintf("%d/%d", r.TotalCount, len(r.Groups)) != want {
						errs[0] = fmt.Sprintf("after requests abandoned by their clients, result %d is %d/%d groups, expected %s", k, r.TotalCount, len(r.Groups), want)
					}
				}
			}
		}
		alive := srv.alive()
		report := raced()
		srv.stop()
		if report == "" {
			report = raced()
		}
		for _, e := range errs {
			if e != "" && alive {
				return []*rt.Violation{rt.NewViolation("C04", "race-server", fmt.Sprintf("race-server round=%d concurrent grouped requests failed", round), map[string]int{"round": round}, "a well-formed concurrent request failed: %s", e)}
			}
		}
		if !alive {
			return []*rt.Violation{rt.NewViolation("C04", "race-server", fmt.Sprintf("race-server round=%d server died", round), map[string]int{"round": round}, "the -race server died under concurrent requests / batches: %s", trunc(srv.stderr.String()))}
		}
		if report != "" {
			return []*rt.Violation{rt.NewViolation("C04", "race-server", fmt.Sprintf("race-server round=%d data race", round), map[string]int{"round": round}, "the race detector of the server process reported: %s", report)}
		}
	}
	ctx.Cov.Note("race_server", "supplementary free-running pass (not exhaustive): real `updog server` built with -race, 3 cold starts x (4 concurrent clients x 3 grouped batches + 7 batches incl. several failing members + 60 requests whose client gives up after 0..1.5 ms, followed by patient requests)")
	return nil
}

func c04Run(ctx *rt.Ctx) []*rt.Violation {
	var jobs []rt.Job
	add := func(p c04Params, bound int) {
		pb, _ := json.Marshal(p)
		b, _ := json.Marshal(e3Job{Scenario: p.Scenario, Params: pb, Bound: bound})
		jobs = append(jobs, rt.Job{Name: fmt.Sprintf("%s-%v-%s-b%d", p.Scenario, p.Preload, p.Cache, bound), NShards: 1, Args: b})
	}
	bounds := map[string]int{"S1": 2, "S2": 2, "S3": 2, "S4": 3, "S4b": 2, "S5": 2, "S5b": 1, "S6": 1, "S7": 1, "S8": 2}
	if ctx.Thorough() {
		bounds = map[string]int{"S1": 4, "S2": 3, "S3": 3, "S4": 5, "S4b": 3, "S5": 3, "S5b": 2, "S6": 2, "S7": 2, "S8": 3}
	}
	for _, pre := range []bool{false, true} {
		for _, c := range []string{"ample", "none"} {
			add(c04Params{Scenario: "S7", Preload: pre, Cache: c}, bounds["S7"])
			add(c04Params{Scenario: "S8", Preload: pre, Cache: c}, bounds["S8"])
		}
	}
	for _, s := range []string{"S5", "S5b", "S6"} {
		for _, pre := range []bool{false, true} {
			for _, c := range []string{"ample", "none"} {
				add(c04Params{Scenario: s, Preload: pre, Cache: c}, bounds[s])
			}
		}
	}
	for _, s := range []string{"S2", "S3", "S1"} {
		for _, pre := range []bool{false, true} {
			for _, c := range []string{"ample", "tiny", "none"} {
				add(c04Params{Scenario: s, Preload: pre, Cache: c}, bounds[s])
			}
		}
	}
	for _, s := range []string{"S4", "S4b"} {
		for _, c := range []string{"ample", "tiny"} {
			add(c04Params{Scenario: s, Cache: c}, bounds[s])
		}
	}
	done := make(chan []rt.JobOutcome)
	go func() { done <- rt.RunJobs(ctx, []rt.Job{{Name: "race-server", NShards: 1}}, rt.SpawnOpt{}) }()
	outs := rt.RunJobs(ctx, jobs, rt.SpawnOpt{Race: true})
	vs := rt.Collect(ctx, outs, nil)
	vs = append(vs, rt.Collect(ctx, <-done, nil)...)
	ctx.Cov.Note("preemption_bounds", bounds)
	ctx.Cov.Note("rule", "per scenario and configuration: depth-first enumeration of all schedules of the real goroutines with at most the given number of preemptions, scheduling points at every sync/atomic operation of updog; per schedule: race detector silent, no panic, no deadlock, every result equals the call run alone, LRU structure consistent; S4/S4b: call/return history of direct LRUCache use is linearizable against a (lossy for the tiny cache) map")
	ctx.Cov.Add("distinct_outcomes", int64(ctx.Cov.SetLen("outcomes")))
	ctx.Assumef("scheduling points are the sync/atomic operations of packages updog and updog/driver; unsynchronised accesses are caught by the race detector inside every explored schedule (the scheduler's hand-off creates no happens-before edge)")
	ctx.Assumef("bbolt read transactions and roaring operations run atomically between two scheduling points; their internal synchronisation is visible to the race detector but is not a scheduling point")
	ctx.Assumef("concurrent gRPC requests are not enumerated: the server handler adds no shared state beyond the index and its LRU cache, which is what these scenarios share (DESIGN.md §6)")
	ctx.Assumef("2-3 goroutines; the property's 'any number' is approached by the preemption-bounded enumeration only")
	return vs
}

func c04Replay(ctx *rt.Ctx, v *rt.Violation) *rt.Violation {
	if v.Kind == "race-server" {
		if vs := c04RaceServer(ctx); len(vs) > 0 {
			return vs[0]
		}
		return nil
	}
	return e3Replay(ctx, "C04", v)
}

func init() {
	register(&Property{ID: "C04", Level: "model_checking", Run: c04Run, Worker: c04Worker, Replay: c04Replay})
}
