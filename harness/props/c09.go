package props

import (
	"encoding/json"
	"fmt"
	"runtime"
	"strings"

	"github.com/akrennmair/updog/internal/queryparser"
	updogv1 "github.com/akrennmair/updog/proto/updog/v1"
	"github.com/akrennmair/updog/zzverif/model"
	"github.com/akrennmair/updog/zzverif/rt"
)

// C09 — the parser is total, accepts exactly the grammar, builds the prescribed tree, leaks no goroutine:
// exhaustive enumeration of token strings and byte strings up to a length, plus finite families.

// protoString renders a parsed tree in the same canonical form as model.PExpr.String.
func protoString(e *updogv1.Query_Expression) string {
	if e == nil {
		return "(nil)"
	}
	switch v := e.Value.(type) {
	case *updogv1.Query_Expression_Eq:
		if v.Eq.Placeholder != 0 {
			return fmt.Sprintf("(eq %s $%d)", v.Eq.Column, v.Eq.Placeholder)
		}
		return fmt.Sprintf("(eq %s %q)", v.Eq.Column, v.Eq.Value)
	case *updogv1.Query_Expression_Not_:
		return "(not " + protoString(v.Not.Expr) + ")"
	case *updogv1.Query_Expression_And_:
		s := "(and"
		for _, k := range v.And.Exprs {
			s += " " + protoString(k)
		}
		return s + ")"
	case *updogv1.Query_Expression_Or_:
		s := "(or"
		for _, k := range v.Or.Exprs {
			s += " " + protoString(k)
		}
		return s + ")"
	}
	return "(unset)"
}

func protoQueryString(q *updogv1.Query) string {
	return protoString(q.Expr) + " ; " + strings.Join(q.GroupBy, ",")
}

type parseOutcome struct {
	q      *updogv1.Query
	err    error
	panicv any
	done   bool
}

// parseGuarded runs ParseQuery on its own goroutine (GOMAXPROCS=1) and yields until it is done. If it is not
// done after a large number of yields although nothing else can run, the parser is blocked for good.
func parseGuarded(s string) (o *parseOutcome, hung bool) {
	o = &parseOutcome{}
	go func() {
		defer func() {
			if r := recover(); r != nil {
				o.panicv = r
			}
			o.done = true
		}()
		o.q, o.err = queryparser.ParseQuery(s)
	}()
	for i := 0; !o.done; i++ {
		runtime.Gosched()
		if i > 2_000_000 {
			return o, true
		}
	}
	return o, false
}

var c09Baseline int
var c09LeakSeen bool

// c09CheckInput returns "" or (class, description).
// c09Prev: the query returned by the previous successful call and what it read then: a later call must not change it
// (pooled parsers / shared buffers).
var c09Prev struct {
	q    *updogv1.Query
	text string
	in   string
}

func c09CheckInput(s string) (class, viol string) {
	if c09Baseline == 0 {
		c09Baseline = runtime.NumGoroutine()
	}
	o, hung := parseGuarded(s)
	if c09Prev.q != nil {
		if now := protoQueryString(c09Prev.q); now != c09Prev.text {
			was, in := c09Prev.text, c09Prev.in
			c09Prev.q = nil
			return "earlier-result-changed", fmt.Sprintf("the query returned earlier for %q read %s; after this call it reads %s", in, was, now)
		}
	}
	if o.q != nil && o.err == nil && o.panicv == nil {
		c09Prev.q, c09Prev.text, c09Prev.in = o.q, protoQueryString(o.q), s
	}
	if hung {
		return "hang", "ParseQuery does not return (parser blocked waiting for a token that never comes)"
	}
	// goroutines: wait (by yielding) until the count is back at the baseline
	leaked := false
	for i := 0; runtime.NumGoroutine() > c09Baseline; i++ {
		runtime.Gosched()
		if i > 200 {
			leaked = true
			break
		}
	}
	if leaked {
		where := "a goroutine"
		if !c09LeakSeen {
			c09LeakSeen = true
			buf := make([]byte, 1<<16)
			buf = buf[:runtime.Stack(buf, true)]
			if strings.Contains(string(buf), "queryparser.(*lexer)") {
				where = "the lexer goroutine (still running or blocked sending a token nobody will receive)"
			}
		}
		c09Baseline = runtime.NumGoroutine() // keep going with the leaked goroutine counted in
		return "leak", fmt.Sprintf("ParseQuery left %s behind", where)
	}
	if o.panicv != nil {
		return "panic", fmt.Sprintf("ParseQuery panicked: %v", o.panicv)
	}
	want := model.ParseRef(s)
	switch {
	case want == nil && o.err == nil:
		return "accepts-non-sentence", fmt.Sprintf("accepted as %s although the input is not a sentence of the grammar", protoQueryString(o.q))
	case want == nil:
		if o.q != nil {
			return "error-and-query", "returned an error together with a query"
		}
		return "", ""
	case o.err != nil:
		return "rejects-sentence", fmt.Sprintf("rejected (%v) although the grammar derives it as %s", o.err, want)
	case o.q == nil:
		return "nil-query", "returned neither a query nor an error"
	}
	if got := protoQueryString(o.q); got != want.String() {
		return "wrong-tree", fmt.Sprintf("parsed as %s, the grammar prescribes %s", got, want)
	}
	return "", ""
}

var c09Tokens = []string{"a", "b1", "=", `"x"`, `""`, `"""q"""`, "$1", "&", "|", "^", "(", ")", ";", ","}
var c09Bytes = []string{"a", "Z", "_", "7", " ", "\n", `"`, "$", "=", "&", "|", "^", "(", ")", ";", ",", "\x00", "\xff", "é", "."}

type c09Case struct {
	Input string `json:"input"`
}

func (c c09Case) sig() string { return fmt.Sprintf("input=%q", c.Input) }

type c09Args struct {
	Space string `json:"space"` // tokens | bytes | families
	Len   int    `json:"len"`
}

// enumerate all sequences over alphabet of length exactly n whose index i satisfies i % nsh == sh.
func seqs(alphabet []string, n int, sep string, sh, nsh int, f func(s string) bool) {
	idx := make([]int, n)
	parts := make([]string, n)
	cnt := 0
	for {
		if cnt%nsh == sh {
			for i, j := range idx {
				parts[i] = alphabet[j]
			}
			if !f(strings.Join(parts, sep)) {
				return
			}
		}
		cnt++
		p := n - 1
		for p >= 0 {
			idx[p]++
			if idx[p] < len(alphabet) {
				break
			}
			idx[p] = 0
			p--
		}
		if p < 0 {
			return
		}
	}
}

func c09Families() []string {
	var out []string
	for _, n := range []string{"", "0", "1", "2", "007", "08", "09", "010", "0010", "0x10", "1e3", "1_0", "٣", "2147483647", "2147483648", "4294967295", "4294967296", "4294967297", "9223372036854775807", "9223372036854775808", "18446744073709551617", "1000000000000000000000000000000", "00000000000000000000000000000000000000001"} {
		out = append(out, "a = $"+n, "a = $"+n+" & b = $1", "^ a = $"+n+" ; b")
	}
	for _, k := range []int{1, 2, 3, 10, 100, 1000, 10000} {
		out = append(out, strings.Repeat("(", k)+` a = "x" `+strings.Repeat(")", k))
		out = append(out, strings.Repeat("^", k)+` a = "x"`)
		out = append(out, strings.Repeat("(", k)+` a = "x" `+strings.Repeat(")", k-1))
		out = append(out, strings.Repeat("( ^ ", k)+` a = "x" `+strings.Repeat(")", k)+" ; a")
		out = append(out, `a = "x"`+strings.Repeat(` & a = "x"`, k))
		out = append(out, `a = "x"`+strings.Repeat(` | a = "x"`, k)+" &")
	}
	// token-level mutations of valid sentences: drop / duplicate / swap each token, append each token
	base := []string{`a = "1" & b = "2" | c = "3"`, `foo = "bar" & ( bar = "baz" | baz = "quux" ) ; x , y`, `^ ( a = $1 | ^ b = "q""q" ) ; a`, "a = \"l1\nl2\" | b = \"\""}
	for _, b := range base {
		t := strings.Fields(b)
		out = append(out, b)
		for i := range t {
			d := append(append([]string{}, t[:i]...), t[i+1:]...)
			out = append(out, strings.Join(d, " "))
			dup := append(append(append([]string{}, t[:i+1]...), t[i]), t[i+1:]...)
			out = append(out, strings.Join(dup, " "))
			if i+1 < len(t) {
				sw := append([]string{}, t...)
				sw[i], sw[i+1] = sw[i+1], sw[i]
				out = append(out, strings.Join(sw, " "))
			}
		}
		for _, x := range c09Tokens {
			out = append(out, b+" "+x, x+" "+b)
		}
		out = append(out, b+` "unterminated`, b+` "`, b+` ""`, b+" ;", b+" é", b+" !", b+" \xff", b+` "c`)
	}
	// runes whose low byte (or low 7 bits) is an operator character: none of them is that operator
	for _, c := range "()&|^,;=\"$" {
		for _, off := range []rune{0x80, 0x100, 0x4E00, 0xFF00, 0x10000} {
			r := string(off + c)
			out = append(out, `a `+r+` "1"`, `a = "1" `+r+` b = "2"`, r+` a = "1" `+r, `a = "1" `+r+` b`, `a = `+r+`1`+r)
		}
	}
	// long runs of one byte / rune class at a token boundary, inside a value and as a name (whatever quotes, truncates or
	// classifies input text walks over them): continuation bytes without a lead byte, lead bytes without continuation,
	// multi-byte runes, blanks, letters; lengths around 32 / 64 / 256 / 4096
	for _, unit := range []string{"\x80", "\xbf", "\xc3", "\xf0", "\xff", "é", "日", "\U0001F600", " ", "\t", "x", "_", "$", "\""} {
		for _, k := range []int{2, 3, 4, 8, 15, 16, 17, 31, 32, 33, 34, 63, 64, 65, 255, 256, 257, 4095, 4096, 4097} {
			run := strings.Repeat(unit, k)
			out = append(out, run, `a = "b" & `+run, run+` a = "b"`, `a = "`+run+`"`, `a = "b" ; `+run, `a = "b" `+run+` & c = "d"`, `a = "`+run, run+` = "b"`)
		}
	}
	// strings whose last quote is part of an escaped pair: they are unterminated
	for _, v := range []string{`"abc""`, `"""`, `""x""`, `"a""b""`, `"""""`, `" ""`} {
		out = append(out, "a = "+v, "a = "+v+" ; a", `a = "x" & b = `+v)
	}
	return out
}

// renderSentence spells a tree as a sentence of the grammar (minimal or full parentheses). A leaf whose value
// starts with $ is a placeholder.
func renderSentence(e *model.Expr, full, top bool) string {
	s, _ := renderS(e, full, top)
	return s
}

// renderS returns the text and whether it is a simple-expr (comparison, negation or parenthesised group).
func renderS(e *model.Expr, full, top bool) (string, bool) {
	switch e.Op {
	case "eq":
		if strings.HasPrefix(e.Val, "$") {
			return e.Col + " = " + e.Val, true
		}
		return e.Col + ` = "` + strings.ReplaceAll(e.Val, `"`, `""`) + `"`, true
	case "not":
		s, simple := renderS(e.Kids[0], full, false)
		if !simple {
			s = "( " + s + " )"
		}
		if full {
			return "( ^ " + s + " )", true
		}
		return "^ " + s, true
	}
	var parts []string
	for _, k := range e.Kids {
		s, simple := renderS(k, full, false)
		if !simple {
			s = "(" + s + ")"
		}
		parts = append(parts, s)
	}
	sep := " & "
	if e.Op == "or" {
		sep = "|"
	}
	s := strings.Join(parts, sep)
	if full || len(e.Kids) == 1 && !top {
		return "( " + s + " )", true
	}
	return s, len(e.Kids) == 1
}

func c09Worker(ctx *rt.Ctx, job *rt.Job) []*rt.Violation {
	var a c09Args
	job.Decode(&a)
	seen := map[string]bool{}
	var vs []*rt.Violation
	check := func(s string) bool {
		ctx.Cov.Add("evaluations", 1)
		class, viol := c09CheckInput(s)
		if model.ParseRef(s) != nil {
			ctx.Cov.Add("sentences", 1)
			if strings.ContainsAny(s, "&|^(") {
				ctx.Cov.Add("distinct_nontrivial", 1)
			}
		}
		if class != "" && !seen[class] {
			seen[class] = true
			c := c09Case{Input: s}
			vs = append(vs, rt.NewViolation("C09", "parse", c.sig(), c, "%s", viol))
		}
		if ctx.Cov.Get("evaluations")%4096 == 0 && ctx.Expired() {
			ctx.Cov.Cap(fmt.Sprintf("deadline in space %s length %d", a.Space, a.Len))
			return false
		}
		// a goroutine that was left behind may be spinning (it then takes a time slice at every yield): stop this worker
		return len(vs) < 6 && class != "hang" && class != "leak"
	}
	switch a.Space {
	case "tokens":
		seqs(c09Tokens, a.Len, " ", job.Shard, job.NShards, check)
	case "bytes":
		seqs(c09Bytes, a.Len, "", job.Shard, job.NShards, check)
	case "sentences":
		leaves := []*model.Expr{model.Eq("a", "x"), model.Eq("b1", "$2"), model.Eq("c", "\"q\"r\"")}
		trees := model.Trees(leaves, a.Len, 2)
		for i, t := range trees {
			if i%job.NShards != job.Shard {
				continue
			}
			for _, full := range []bool{false, true} {
				for _, gb := range []string{"", " ; a", " ;a,b1 , Z_9"} {
					txt := renderSentence(t, full, true) + gb
					if model.ParseRef(txt) == nil {
						rt.Harnessf("generated sentence %q is rejected by the reference grammar", txt)
					}
					if !check(txt) {
						return vs
					}
				}
			}
		}
		if job.Shard == 0 {
			ctx.Cov.Sample(1, map[string]any{"space": "sentences", "example": renderSentence(trees[len(trees)-1], true, true) + " ; a"})
		}
	case "canonical":
		// Same-operator nestings in the formatter's own spelling and fully parenthesised, parsed one after the other in ONE
		// process, in ascending (Len=0) and descending (Len=1) order of the tree enumeration: ParseQuery is a function of
		// its argument, whatever was parsed before (a memo keyed by a non-injective spelling would answer the flat chain
		// with the nested tree or vice versa, depending on which came first).
		leaves := []*model.Expr{model.Eq("a", "x"), model.Eq("b", "y")}
		var trees []*model.Expr
		for _, op := range []string{"and", "or"} {
			lv1 := append([]*model.Expr{}, leaves...)
			for ar := 1; ar <= 3; ar++ {
				idx := make([]int, ar)
				for {
					k := make([]*model.Expr, ar)
					for i, j := range idx {
						k[i] = leaves[j]
					}
					lv1 = append(lv1, &model.Expr{Op: op, Kids: k})
					p := ar - 1
					for p >= 0 {
						if idx[p]++; idx[p] < len(leaves) {
							break
						}
						idx[p] = 0
						p--
					}
					if p < 0 {
						break
					}
				}
			}
			trees = append(trees, lv1[len(leaves):]...)
			for ar := 1; ar <= 3; ar++ {
				idx := make([]int, ar)
				for {
					k := make([]*model.Expr, ar)
					nested := false
					for i, j := range idx {
						k[i] = lv1[j]
						nested = nested || j >= len(leaves)
					}
					if nested {
						trees = append(trees, &model.Expr{Op: op, Kids: k})
					}
					p := ar - 1
					for p >= 0 {
						if idx[p]++; idx[p] < len(lv1) {
							break
						}
						idx[p] = 0
						p--
					}
					if p < 0 {
						break
					}
				}
			}
		}
		if a.Len == 1 {
			for i, j := 0, len(trees)-1; i < j; i, j = i+1, j-1 {
				trees[i], trees[j] = trees[j], trees[i]
			}
		}
		for _, t := range trees {
			for _, gb := range [][]string{nil, {"g"}} {
				canon := queryparser.QueryToString(&updogv1.Query{Expr: toProto(t), GroupBy: gb})
				fullp := renderSentence(t, true, true)
				if gb != nil {
					fullp += " ; g"
				}
				for _, txt := range []string{fullp, canon} {
					ctx.Cov.Add("order_dependent_probes", 1)
					if !check(txt) {
						return vs
					}
				}
			}
		}
		ctx.Cov.Sample(1, map[string]any{"space": "canonical", "trees": len(trees), "descending": a.Len == 1})
	case "families":
		for _, s := range c09Families() {
			if !check(s) {
				break
			}
		}
		ctx.Cov.Sample(2, map[string]any{"family_input": c09Families()[5]})
	}
	if job.Shard == 0 && a.Space != "families" {
		ctx.Cov.Sample(1, map[string]any{"space": a.Space, "length": a.Len, "alphabet": map[string][]string{"tokens": c09Tokens, "bytes": c09Bytes}[a.Space]})
	}
	return vs
}

func c09Run(ctx *rt.Ctx) []*rt.Violation {
	var jobs []rt.Job
	add := func(space string, l, shards int) {
		b, _ := json.Marshal(c09Args{Space: space, Len: l})
		for s := 0; s < shards; s++ {
			jobs = append(jobs, rt.Job{Name: space, Shard: s, NShards: shards, Args: b})
		}
	}
	tl, bl := 5, 5
	if ctx.Thorough() {
		tl, bl = 7, 6
	}
	add("families", 0, 1)
	add("canonical", 0, 1)
	add("canonical", 1, 1)
	if ctx.Thorough() {
		add("sentences", 3, 32)
	} else {
		add("sentences", 2, 4)
	}
	for l := tl; l >= 0; l-- {
		sh := 1
		if l >= 5 {
			sh = 16
		}
		if l >= 7 {
			sh = 64
		}
		add("tokens", l, sh)
	}
	for l := bl; l >= 1; l-- {
		sh := 1
		if l >= 4 {
			sh = 16
		}
		if l >= 6 {
			sh = 64
		}
		add("bytes", l, sh)
	}
	outs := rt.RunJobs(ctx, jobs, rt.SpawnOpt{MaxProcs1: true})
	vs := rt.Collect(ctx, outs, nil)
	ctx.Cov.Note("rule", fmt.Sprintf("every string of <=%d tokens over a 14-token alphabet (joined by spaces), every string of <=%d symbols over a 20-symbol byte alphabet (incl. NUL, invalid UTF-8, non-ASCII), and finite families (placeholder numbers around 2^31/2^32/2^63, nesting to 10000, token-level mutations of 4 sentences) is parsed by the real parser on its own goroutine under GOMAXPROCS=1 and compared with an independent recogniser of the documented grammar (accept/reject and the prescribed tree); after each call the goroutine count must return to the baseline; non-trivial = sentences containing an operator or parenthesis", tl, bl))
	ctx.Assumef("inputs longer than the bounds and nesting deeper than 10000 are not covered")
	ctx.Assumef("goroutine leaks and hangs are decided by scheduler state under GOMAXPROCS=1 (nothing else runnable after a bounded number of yields), not by wall-clock time")
	return vs
}

func c09Replay(ctx *rt.Ctx, v *rt.Violation) *rt.Violation {
	var c c09Case
	if err := json.Unmarshal(v.Case, &c); err != nil {
		rt.Harnessf("case: %v", err)
	}
	// replay in a GOMAXPROCS=1 worker
	b, _ := json.Marshal(c09Args{Space: "one:" + c.Input})
	outs := rt.RunJobs(ctx, []rt.Job{{Name: "one", NShards: 1, Args: b}}, rt.SpawnOpt{MaxProcs1: true})
	vs := rt.Collect(ctx, outs, nil)
	if len(vs) > 0 {
		return vs[0]
	}
	return nil
}

func init() {
	register(&Property{ID: "C09", Level: "exploration", Run: c09Run, Worker: func(ctx *rt.Ctx, job *rt.Job) []*rt.Violation {
		var a c09Args
		job.Decode(&a)
		if strings.HasPrefix(a.Space, "one:") {
			s := strings.TrimPrefix(a.Space, "one:")
			if class, viol := c09CheckInput(s); class != "" {
				c := c09Case{Input: s}
				return []*rt.Violation{rt.NewViolation("C09", "parse", c.sig(), c, "%s", viol)}
			}
			return nil
		}
		return c09Worker(ctx, job)
	}, Replay: c09Replay})
}
