package props

import (
	"bytes"
	"encoding/csv"
	"encoding/hex"
	"encoding/json"
	"fmt"
	"os"
	"os/exec"
	"path/filepath"
	"strings"

	"github.com/akrennmair/updog/zzverif/ix"
	"github.com/akrennmair/updog/zzverif/model"
	"github.com/akrennmair/updog/zzverif/rt"
)

// C19 — `updog create` ingests a CSV faithfully in both modes: the real binary is run on every CSV of a finite
// space and its output index compared with the model.

var c19Headers = []string{"A", "b c", "x1", "É", "", "Ab", "k", "home_city"}
var c19Fields = []string{"", "a", "a,b", "q\"q", "l1\nl2", "é", " a\t"}

// normHeader re-implements the naming rule from the property statement.
func normHeader(h string) string {
	var b strings.Builder
	for _, r := range strings.ToLower(h) {
		if r >= 'a' && r <= 'z' {
			b.WriteRune(r)
		} else {
			b.WriteByte('_')
		}
	}
	return b.String()
}

type c19Case struct {
	Header      []string   `json:"header"`
	Records     [][]string `json:"records"`
	Raw         string     `json:"raw,omitempty"`          // malformed input given literally
	Present     bool       `json:"present"`                // output file exists beforehand
	PresentKind string     `json:"present_kind,omitempty"` // index (default) | empty | bytes
	Plain       bool       `json:"plain,omitempty"`        // written by encoding/csv's writer instead of quoting every field
	RawHex      string     `json:"raw_hex,omitempty"`      // the input file, hex-encoded (for bytes that are not valid UTF-8)
	Flags       []string   `json:"flags,omitempty"`        // additional command-line flags (e.g. -v)
	Shape       string     `json:"shape,omitempty"`        // "k4096": generated records with values on exactly 4096 / 8192 / 5 records
}

func (c c19Case) sig() string {
	fl := ""
	if len(c.Flags) > 0 {
		fl = fmt.Sprintf(" flags=%v", c.Flags)
	}
	if c.RawHex != "" {
		b, _ := hex.DecodeString(c.RawHex)
		return fmt.Sprintf("raw=%q output-present=%v%s", string(b), c.Present, fl)
	}
	if c.Shape != "" {
		return fmt.Sprintf("header=%q records=%d generated records (shape %s)%s", c.Header, len(c.Records), c.Shape, fl)
	}
	if len(c.Flags) > 0 {
		return fmt.Sprintf("header=%q records=%d records (i, i mod 7)%s", c.Header, len(c.Records), fl)
	}
	if len(c.Records) > 20 {
		return fmt.Sprintf("header=%q records=%d generated records (i, i mod 7) output-present=%v", c.Header, len(c.Records), c.Present)
	}
	if c.Raw != "" {
		return fmt.Sprintf("raw=%q output-present=%v", c.Raw, c.Present)
	}
	return fmt.Sprintf("header=%q records=%q output-present=%v%s plain-writer=%v", c.Header, c.Records, c.Present, c.PresentKind, c.Plain)
}

func (c c19Case) csv() []byte {
	if c.RawHex != "" {
		b, _ := hex.DecodeString(c.RawHex)
		return b
	}
	if c.Raw != "" {
		if c.Raw == "<empty>" {
			return nil
		}
		return []byte(c.Raw)
	}
	var b bytes.Buffer
	if c.Plain {
		// encoding/csv's writer: quotes only where needed (a lone empty field then becomes an empty line, which readers skip)
		w := csv.NewWriter(&b)
		w.Write(c.Header)
		for _, r := range c.Records {
			w.Write(r)
		}
		w.Flush()
		return b.Bytes()
	}
	// every field quoted: full control over what the file says
	for _, rec := range append([][]string{c.Header}, c.Records...) {
		for i, f := range rec {
			if i > 0 {
				b.WriteByte(',')
			}
			b.WriteString(`"` + strings.ReplaceAll(f, `"`, `""`) + `"`)
		}
		b.WriteByte('\n')
	}
	return b.Bytes()
}

// c19Meaning: what the file says according to encoding/csv with default settings (the definition of well-formed).
func c19Meaning(data []byte) (header []string, records [][]string, err error) {
	r := csv.NewReader(bytes.NewReader(data))
	all, err := r.ReadAll()
	if err != nil {
		return nil, nil, err
	}
	if len(all) == 0 {
		return nil, nil, fmt.Errorf("no header")
	}
	return all[0], all[1:], nil
}

func c19Check(ctx *rt.Ctx, c c19Case) (viol string) {
	bin := os.Getenv("VCHECK_UPDOG_BIN")
	if bin == "" {
		rt.Harnessf("VCHECK_UPDOG_BIN not set")
	}
	dir := ctx.TempDir("c19")
	defer os.RemoveAll(dir)
	in := filepath.Join(dir, "in.csv")
	data := c.csv()
	os.WriteFile(in, data, 0o644)
	// the model: record i is row i with one value per (normalised) header column, where header and records are
	// what encoding/csv reads from the file
	header, records, merr := c19Meaning(data)
	malformed := merr != nil
	var rows []model.Row
	for _, rec := range records {
		r := model.Row{}
		for i, v := range rec {
			r[normHeader(header[i])] = v
		}
		rows = append(rows, r)
	}
	d := model.FromRows(rows)
	for _, big := range []bool{false, true} {
		out := filepath.Join(dir, fmt.Sprintf("out-%v.updog", big))
		var before string
		if c.Present {
			switch c.PresentKind {
			case "empty":
				os.WriteFile(out, nil, 0o644)
			case "bytes":
				os.WriteFile(out, bytes.Repeat([]byte{0xAB}, 700), 0o644)
			default:
				p, _, err := ix.Build(dir, []model.Row{{"old": "index"}}, ix.MemFile)
				if err != nil {
					rt.Harnessf("build: %v", err)
				}
				os.Rename(p, out)
			}
			before = fileState(out)
		}
		args := []string{"create", "-o", out}
		mode := "normal"
		if big {
			args = append(args, "--big")
			mode = "--big"
		}
		args = append(args, c.Flags...)
		if len(c.Flags) > 0 {
			mode += " " + strings.Join(c.Flags, " ")
		}
		cmd := exec.Command(bin, append(args, in)...)
		cmd.Env = append(os.Environ(), "TMPDIR="+dir)
		outp, err, hung := runChild(cmd)
		if hung {
			return fmt.Sprintf("%s mode: the command never exits (it consumes no CPU time any more: blocked for good)", mode)
		}
		failed := err != nil
		if malformed || c.Present {
			if !failed {
				return fmt.Sprintf("%s mode: the command exited 0 although it must fail (%s)", mode, map[bool]string{true: "output exists", false: "malformed CSV"}[c.Present])
			}
			if c.Present {
				if after := fileState(out); after != before {
					return fmt.Sprintf("%s mode: the existing output file was modified: %s -> %s", mode, before, after)
				}
			}
			continue
		}
		if failed {
			return fmt.Sprintf("%s mode: the command failed on a well-formed CSV: %v %s", mode, err, trunc(string(outp)))
		}
		idx, err := ix.Open(out, big, nil) // open the big-mode output preloaded for variety
		if err != nil {
			return fmt.Sprintf("%s mode: the output does not open: %v", mode, err)
		}
		probe, msg := c05Probes(d, idx, true, nil)
		if msg == "" && len(d.Cols) > 0 {
			// joint distribution over all columns = the multiset of records
			var cols []string
			for _, cl := range d.Schema() {
				cols = append(cols, cl[0])
			}
			all := model.Not(model.Eq(cols[0], "\x01none"))
			if m := compareGrouped(d, all, cols, idx); m != "" {
				probe, msg = "joint group-by over all columns", m
			}
		}
		idx.Close()
		if msg != "" {
			return fmt.Sprintf("%s mode: %s: %s", mode, probe, trunc(msg))
		}
		sc := exec.Command(bin, "schema", "-f", out)
		if o, err := sc.CombinedOutput(); err != nil {
			return fmt.Sprintf("%s mode: `updog schema` failed on the output: %v %s", mode, err, trunc(string(o)))
		}
	}
	return ""
}

type c19Args struct {
	Cols    int    `json:"cols"`
	Records int    `json:"records"`
	Sub     bool   `json:"sub"`    // 3-field sub-alphabet
	Family  string `json:"family"` // "" | prefix | large
	N       int    `json:"n"`
}

func c19HeaderChoices(cols int) [][]string {
	var out [][]string
	if cols == 1 {
		for _, h := range c19Headers {
			out = append(out, []string{h})
		}
		return out
	}
	for _, h1 := range c19Headers {
		for _, h2 := range c19Headers {
			if normHeader(h1) != normHeader(h2) {
				out = append(out, []string{h1, h2})
			}
		}
	}
	return out
}

func c19Worker(ctx *rt.Ctx, job *rt.Job) []*rt.Violation {
	var a c19Args
	job.Decode(&a)
	var vs []*rt.Violation
	n := 0
	run := func(c c19Case) bool {
		n++
		if n%job.NShards != job.Shard {
			return true
		}
		ctx.Cov.Add("evaluations", 1)
		ctx.Cov.Add("process_runs", 2)
		if len(c.Records) > 0 || c.Raw != "" {
			ctx.Cov.Add("distinct_nontrivial", 1)
		}
		if m := c19Check(ctx, c); m != "" {
			vs = append(vs, rt.NewViolation("C19", "create", c.sig(), c, "%s", m))
			return false
		}
		if n%501 == 0 {
			ctx.Cov.Sample(1, map[string]any{"case": c.sig()})
		}
		if n%64 == 0 && ctx.Expired() {
			ctx.Cov.Cap("deadline in CSV enumeration")
			return false
		}
		return true
	}
	switch a.Family {
	case "prefix":
		// prefix-related column names whose name+field concatenations coincide: 2 records, every field combination
		fl := []string{"", "a", "b", "bc", "c"}
		for _, h := range [][]string{{"A", "Ab"}, {"", "A"}} {
			for _, f1 := range fl {
				for _, f2 := range fl {
					for _, f3 := range fl {
						for _, f4 := range fl {
							if !run(c19Case{Header: h, Records: [][]string{{f1, f2}, {f3, f4}}}) {
								return vs
							}
						}
					}
				}
			}
		}
		return vs
	case "k4096":
		// values that occur on exactly 4096 and 8192 records (and one on 5): buffer-sized runs in the big writer
		c := c19Case{Header: []string{"X", "K", "id"}, Shape: "k4096"}
		for i := 0; i < 4096+8192+5; i++ {
			x := "c"
			if i < 4096 {
				x = "a"
			} else if i < 4096+8192 {
				x = "b"
			}
			c.Records = append(c.Records, []string{x, fmt.Sprint(i % 3), fmt.Sprint(i)})
		}
		n = job.Shard
		run(c)
		return vs
	case "flags":
		// the global flags must not change what is created: -v with no, 3 and 1001 records
		// fields and lines of 2^16 bytes and more, with and without -v
		for _, flen := range []int{65535, 65536, 70000} {
			for _, fl := range [][]string{nil, {"-v"}} {
				c := c19Case{Header: []string{"id", "K"}, Flags: fl, Shape: fmt.Sprintf("one field of %d bytes", flen)}
				c.Records = [][]string{{"0", strings.Repeat("x", flen)}, {"1", "y"}}
				n = job.Shard
				if !run(c) {
					return vs
				}
			}
		}
		for _, nrec := range []int{0, 3, 1001} {
			c := c19Case{Header: []string{"id", "K"}, Flags: []string{"-v"}}
			for i := 0; i < nrec; i++ {
				c.Records = append(c.Records, []string{fmt.Sprint(i), fmt.Sprint(i % 7)})
			}
			n = job.Shard
			if !run(c) {
				return vs
			}
		}
		return vs
	case "latebad":
		// a malformed record after 1023 .. 2049 good ones (an ingester that reads ahead in batches must still fail), each
		// input several times: the failure must not depend on which of two ready events a select happens to take
		for _, good := range []int{1023, 1024, 1025, 2047, 2048, 2049} {
			var b strings.Builder
			b.WriteString("id,K\n")
			for i := 0; i < good; i++ {
				fmt.Fprintf(&b, "%d,%d\n", i, i%7)
			}
			for _, bad := range []string{"x\n", "x,y,z\n", "x,\"y\n"} {
				for rep := 0; rep < 3; rep++ {
					if !run(c19Case{RawHex: hex.EncodeToString([]byte(b.String() + bad))}) {
						return vs
					}
				}
			}
		}
		return vs
	case "binary":
		// fields that are not valid UTF-8 and differ in one invalid byte only: every 2-record file over 3 such fields
		fl := []string{"caf\xe9", "caf\xe8", "ok"}
		for _, f1 := range fl {
			for _, f2 := range fl {
				for _, f3 := range fl {
					for _, f4 := range fl {
						raw := fmt.Sprintf("\"A\",\"b\xe9\"\n\"%s\",\"%s\"\n\"%s\",\"%s\"\n", f1, f2, f3, f4)
						n = job.Shard
						if !run(c19Case{RawHex: hex.EncodeToString([]byte(raw))}) {
							return vs
						}
					}
				}
			}
		}
		return vs
	case "large":
		// record counts on both sides of the big writer's 1000-row commits and the in-memory writer's 1000-value batches
		c := c19Case{Header: []string{"id", "K"}}
		for i := 0; i < a.N; i++ {
			c.Records = append(c.Records, []string{fmt.Sprint(i), fmt.Sprint(i % 7)})
		}
		n = job.Shard // run regardless of sharding
		run(c)
		return vs
	}
	if a.Cols == 0 {
		// malformed inputs and pre-existing outputs
		// well-formed inputs with unquoted leading blanks (kept by a default csv reader) and a bare quote after a blank
		for _, raw := range []string{"a,b\n x,\ty\n  , z\n", "a, b\n1,2\n", " a\n x\n"} {
			if !run(c19Case{Raw: raw}) {
				return vs
			}
		}
		for _, raw := range []string{"<empty>", "a,b\nx, \"y\"\n", "a,b\n1\n", "a,b\n1,2,3\n", "a,b\n1,2\n3\n", "a\nx\"y\n", "a\n\"unterminated\n", "a,b\n\"x\"y,1\n"} {
			if !run(c19Case{Raw: raw}) {
				return vs
			}
		}
		for _, c := range []c19Case{{Header: []string{"a"}, Present: true}, {Header: []string{"a", "b"}, Records: [][]string{{"1", "2"}}, Present: true}, {Raw: "a,b\n1\n", Present: true},
			{Header: []string{"a"}, Records: [][]string{{"1"}}, Present: true, PresentKind: "empty"}, {Header: []string{"a"}, Records: [][]string{{"1"}}, Present: true, PresentKind: "bytes"}, {Header: []string{"a"}, Present: true, PresentKind: "empty"}} {
			if !run(c) {
				return vs
			}
		}
		return vs
	}
	fields := c19Fields
	if a.Sub {
		fields = []string{"", "a,b", "l1\nl2"}
	}
	// all records of a.Cols fields
	var recs [][]string
	idx := make([]int, a.Cols)
	for {
		r := make([]string, a.Cols)
		for i, j := range idx {
			r[i] = fields[j]
		}
		recs = append(recs, r)
		p := a.Cols - 1
		for p >= 0 {
			idx[p]++
			if idx[p] < len(fields) {
				break
			}
			idx[p] = 0
			p--
		}
		if p < 0 {
			break
		}
	}
	for _, h := range c19HeaderChoices(a.Cols) {
		ri := make([]int, a.Records)
		for {
			c := c19Case{Header: h}
			for _, j := range ri {
				c.Records = append(c.Records, recs[j])
			}
			if !run(c) {
				return vs
			}
			if a.Records <= 1 {
				c.Plain = true
				if !run(c) {
					return vs
				}
			}
			p := a.Records - 1
			for p >= 0 {
				ri[p]++
				if ri[p] < len(recs) {
					break
				}
				ri[p] = 0
				p--
			}
			if p < 0 {
				break
			}
		}
	}
	return vs
}

func c19Run(ctx *rt.Ctx) []*rt.Violation {
	var jobs []rt.Job
	add := func(a c19Args, shards int) {
		b, _ := json.Marshal(a)
		for s := 0; s < shards; s++ {
			jobs = append(jobs, rt.Job{Name: fmt.Sprintf("c%dr%d", a.Cols, a.Records), Shard: s, NShards: shards, Args: b})
		}
	}
	add(c19Args{Cols: 0}, 1)
	add(c19Args{Family: "prefix"}, 8)
	for _, n := range []int{2001, 1002, 1001, 1000, 999} {
		add(c19Args{Family: "large", N: n}, 1)
	}
	add(c19Args{Family: "k4096"}, 1)
	add(c19Args{Family: "flags"}, 1)
	add(c19Args{Family: "binary"}, 1)
	add(c19Args{Family: "latebad"}, 2)
	if ctx.Thorough() {
		add(c19Args{Cols: 2, Records: 2}, 32)
		add(c19Args{Cols: 2, Records: 3, Sub: true}, 16)
		add(c19Args{Cols: 1, Records: 3}, 4)
	}
	add(c19Args{Cols: 2, Records: 1}, 8)
	add(c19Args{Cols: 2, Records: 0}, 1)
	add(c19Args{Cols: 1, Records: 2}, 4)
	add(c19Args{Cols: 1, Records: 1}, 1)
	add(c19Args{Cols: 1, Records: 0}, 1)
	outs := rt.RunJobs(ctx, jobs, rt.SpawnOpt{})
	vs := rt.Collect(ctx, outs, nil)
	ctx.Cov.Note("rule", "CSV files written by encoding/csv: headers from {A, 'b c', x1, É, '', Ab} (1 column; every ordered pair that stays distinct after normalisation), fields from {'', a, 'a,b', 'q\"q', 'l1\\nl2', é}; every file of the stated shape is run through the real `updog create` and `updog create --big`; the output must open, equal the model (schema with the naming rule, universe, every value count, group-by per column, joint group-by over all columns = multiset of records), and `updog schema` must exit 0; raw well-formed inputs with unquoted leading blanks / tabs in header and records (kept by a default csv reader); a file with values on exactly 4096 / 8192 / 5 records; the -v flag; fields that are not valid UTF-8 and differ in one byte; malformed inputs (ragged records, bare quotes, a bare quote after a blank, empty file, unterminated quote) and 3 pre-existing-output cases must exit non-zero leaving an existing output byte-identical; non-trivial = files with at least one record, and the malformed inputs")
	ctx.Assumef("encoding/csv defines well-formedness; row order is observable only up to what counting queries can distinguish (the joint distribution of all columns)")
	return vs
}

func c19Replay(ctx *rt.Ctx, v *rt.Violation) *rt.Violation {
	var c c19Case
	if err := json.Unmarshal(v.Case, &c); err != nil {
		rt.Harnessf("case: %v", err)
	}
	if m := c19Check(ctx, c); m != "" {
		return rt.NewViolation("C19", "create", c.sig(), c, "%s", m)
	}
	return nil
}

func init() {
	register(&Property{ID: "C19", Level: "exploration", Run: c19Run, Worker: c19Worker, Replay: c19Replay})
}
