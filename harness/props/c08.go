package props

import (
	"encoding/json"
	"fmt"
	"reflect"
	"strconv"
	"strings"

	"github.com/akrennmair/updog"
	"github.com/akrennmair/updog/zzverif/flk"
	"github.com/akrennmair/updog/zzverif/ix"
	"github.com/akrennmair/updog/zzverif/model"
	"github.com/akrennmair/updog/zzverif/rt"
)

// C08 — executing a Query does not change what it means: explicit-state search over sequences of
// executions of a fixed set of Query values on two indexes with different schemas.

type c08Query struct {
	Expr    *model.Expr
	GroupBy []string
}

func c08Queries() []c08Query {
	ax := model.Eq("a", "x")
	return []c08Query{
		{ax, nil},
		{ax, []string{"a"}},
		{model.Not(ax), []string{"a", "b"}},
		{model.Or(ax, model.Eq("b", "y")), []string{"a", "a"}},
		{ax, []string{"u"}},
		{model.Or(ax, model.Not(model.Eq("b", "y"))), nil},
		{model.Not(model.Eq("a", "zz")), []string{"a", "c"}}, // c exists in index 0 only: the failing execution on index 1 must leave no trace
		{model.Eq("c", "1"), []string{"b", "a", "b"}},
		// values that exist in neither / only one of the two indexes, in first, middle and last operand position
		{model.Or(model.Eq("a", "zz"), ax, model.Eq("a", "w")), nil},
		{model.And(model.Not(model.Eq("a", "zz")), model.Or(model.Eq("b", "q"), model.Eq("b", "y"), model.Eq("b", "zz"))), nil},
		{model.Not(model.Or(model.Eq("a", "k"), model.Eq("a", "w"), ax)), nil},
		// redundant nodes below the root (double NOT, single-operand AND/OR, nested same operator): a "simplifying"
		// evaluation must not write back into the caller's tree
		{model.And(ax, model.Not(model.Not(model.Eq("b", "y"))), model.Or(ax), model.And(model.And(ax))), nil},
		// a nested operand before a plain comparison (an evaluation that reorders operands must not do it in the caller's slice)
		{model.And(model.Not(ax), model.Or(model.Eq("b", "z"), model.Eq("b", "y")), model.Eq("b", "y")), nil},
		// a column that index 1 does not have, as a later operand: the execution there fails half-way
		{model.Or(model.And(ax, model.Eq("c", "1")), model.Eq("b", "y")), nil},
		{model.Or(model.Eq("b", "y"), model.Eq("c", "2"), ax), nil},
		{model.And(model.Not(ax), model.Not(model.Eq("b", "q")), model.Eq("c", "1")), nil},
		// two group-by levels where, on index 0, the only selected row lacks the second column (the second level yields no
		// group at all) while on index 1 it yields one: nothing resolved for one index may be used for the other
		{model.And(ax, model.Not(model.Eq("b", "y")), model.Not(model.Eq("b", "z"))), []string{"a", "b"}},
		// a group-by name that differs from a real column only in case: unknown on both indexes, and must stay as written
		{ax, []string{"A"}},
	}
}

func c08Rows() [][]model.Row {
	return [][]model.Row{
		{{"a": "x", "b": "y", "c": "1"}, {"a": "x", "b": "z", "c": "2"}, {"a": "w", "b": "y", "c": "1"}, {"a": "x"}, {}, {"a": "w", "b": "z", "c": "1"}},
		// different numbers of distinct values per column than in index 0
		{{"a": "x", "b": "q"}, {"a": "k", "b": "y"}, {"a": "x", "b": "y"}, {"b": "y"}, {"a": "m", "b": "y"}, {"a": "n"}},
	}
}

type c08Step struct {
	Q int `json:"q"`
	I int `json:"i"`
}

type c08Case struct {
	Steps  []c08Step `json:"steps"`
	Edited string    `json:"edited,omitempty"`
}

func (c c08Case) sig() string {
	var s []string
	for _, st := range c.Steps {
		s = append(s, fmt.Sprintf("q%d@i%d", st.Q, st.I))
	}
	return strings.Join(s, ";")
}

type c08World struct {
	idx   []*updog.Index
	alone [][]string // [q][i] rendering of the result of a fresh query executed alone
	paths []string
}

func renderResult(res *updog.Result, err error) string {
	if err != nil {
		if res != nil {
			return "ERROR+RESULT"
		}
		return "error"
	}
	return fmt.Sprintf("count=%d groups=%s nil=%v", res.Count, groupsString(ix.Groups(res.Groups)), res.Groups == nil)
}

func newC08World(ctx *rt.Ctx) *c08World {
	w := &c08World{}
	for _, rows := range c08Rows() {
		p, _, err := ix.Build(ctx.Scratch, rows, ix.MemFile)
		if err != nil {
			rt.Harnessf("build: %v", err)
		}
		// index 1 is opened with an LRU cache, index 0 without (index 0 has every column, so a query that failed half-way
		// on index 1 is evaluated in full there): re-use must not depend on what a cache remembers
		var cache updog.Cache
		if len(w.idx) == 1 {
			cache = updog.NewLRUCache(1 << 20)
		}
		idx, err := ix.Open(p, false, cache)
		if err != nil {
			rt.Harnessf("open: %v", err)
		}
		w.idx = append(w.idx, idx)
		w.paths = append(w.paths, p)
	}
	for _, q := range c08Queries() {
		var row []string
		for _, idx := range w.idx {
			res, err := safeExec(idx, &updog.Query{Expr: q.Expr.Updog(), GroupBy: append([]string{}, q.GroupBy...)})
			row = append(row, res)
			_ = err
		}
		w.alone = append(w.alone, row)
	}
	return w
}

func (w *c08World) close() {
	for _, i := range w.idx {
		i.Close()
	}
	for _, p := range w.paths {
		removeFile(p)
	}
}

func safeExec(idx *updog.Index, q *updog.Query) (out string, err error) {
	defer func() {
		if r := recover(); r != nil {
			out = fmt.Sprintf("PANIC %v", r)
		}
	}()
	res, e := idx.Execute(q)
	return renderResult(res, e), e
}

// privateDump renders every field of the Query except Expr (interface pointers are not comparable between replays).
func privateDump(q *updog.Query) string {
	v := reflect.ValueOf(q).Elem()
	var b strings.Builder
	for i := 0; i < v.NumField(); i++ {
		n := v.Type().Field(i).Name
		if n == "Expr" {
			continue
		}
		fmt.Fprintf(&b, "%s=%v;", n, v.Field(i))
	}
	return b.String()
}

// c08Play executes the sequence on fresh Query values and checks every step (or only the last one).
// c08Scribble: the caller overwrites every Result it got (it owns it) instead of keeping it: whatever a Query or an index
// remembers of an earlier answer must not alias what was handed out.
var c08Scribble bool

func c08Play(w *c08World, steps []c08Step, onlyLast bool) (viol string, key string) {
	qs := c08Queries()
	live := make([]*updog.Query, len(qs))
	exprs := make([]updog.Expression, len(qs))
	// the group-by lists of all Query values are slices of ONE array, each with spare capacity that reaches into the
	// lists of the following ones (what `dims[:1]`, `dims[:2]` of a drill-down gives a caller): an execution that appends
	// to the caller's slice instead of copying it rewrites a sibling query
	var arena []string
	for _, q := range qs {
		arena = append(arena, q.GroupBy...)
	}
	arena = append(arena, "\x00sentinel0", "\x00sentinel1", "\x00sentinel2", "\x00sentinel3")
	arena0 := append([]string{}, arena...)
	off := 0
	for i, q := range qs {
		exprs[i] = q.Expr.Updog()
		live[i] = &updog.Query{Expr: exprs[i], GroupBy: arena[off : off+len(q.GroupBy)]}
		off += len(q.GroupBy)
	}
	type held struct {
		res  *updog.Result
		text string
		step int
	}
	var kept []held
	for n, st := range steps {
		res, rerr := func() (r *updog.Result, err error) {
			defer func() {
				if p := recover(); p != nil {
					r, err = nil, fmt.Errorf("PANIC %v", p)
				}
			}()
			return w.idx[st.I].Execute(live[st.Q])
		}()
		got := renderResult(res, rerr)
		if rerr != nil && strings.HasPrefix(rerr.Error(), "PANIC") {
			got = rerr.Error()
		}
		// a Result handed out earlier belongs to the caller: later executions must not change it
		for _, h := range kept {
			if now := renderResult(h.res, nil); now != h.text {
				return fmt.Sprintf("the Result returned by step %d changed after step %d: it was %s, now it reads %s", h.step, n+1, h.text, now), ""
			}
		}
		if res != nil && rerr == nil && !c08Scribble {
			kept = append(kept, held{res, got, n + 1})
		}
		if res != nil && c08Scribble {
			res.Count = 4242
			for i, j := 0, len(res.Groups)-1; i < j; i, j = i+1, j-1 {
				res.Groups[i], res.Groups[j] = res.Groups[j], res.Groups[i]
			}
			for i := range res.Groups {
				res.Groups[i].Count = 7
				for k := range res.Groups[i].Fields {
					res.Groups[i].Fields[k] = updog.ResultField{Column: "scribbled", Value: "by the caller"}
				}
			}
		}
		if onlyLast && n < len(steps)-1 {
			continue
		}
		if want := w.alone[st.Q][st.I]; got != want {
			return fmt.Sprintf("step %d (query %d on index %d) returned %s; a freshly constructed equal query returns %s", n+1, st.Q, st.I, got, want), ""
		}
		if !reflect.DeepEqual(arena, arena0) {
			return fmt.Sprintf("step %d wrote into the array behind the caller's GroupBy slices: %q instead of %q", n+1, arena, arena0), ""
		}
		for i, q := range qs {
			if live[i].Expr != exprs[i] || live[i].Expr.String() != q.Expr.Updog().String() {
				return fmt.Sprintf("step %d changed the Expr field of query %d", n+1, i), ""
			}
			if !reflect.DeepEqual(live[i].GroupBy, append([]string{}, q.GroupBy...)) && !(len(live[i].GroupBy) == 0 && len(q.GroupBy) == 0) {
				return fmt.Sprintf("step %d changed the GroupBy field of query %d to %v", n+1, i, live[i].GroupBy), ""
			}
		}
	}
	var b strings.Builder
	for _, q := range live {
		b.WriteString(privateDump(q))
		// hidden fields of the expression objects (memoised keys and the like) are state too
		b.WriteString(rt.DeepDump(q.Expr, 6))
		b.WriteString("|")
	}
	return "", b.String()
}

type c08Args struct {
	MaxDepth int `json:"max_depth"`
}

// c08Worker: every sequence of executions up to MaxDepth that starts with operation number Shard, without merging.
func c08Worker(ctx *rt.Ctx, job *rt.Job) []*rt.Violation {
	flk.Sequential(true)
	defer flk.Sequential(false)
	var a c08Args
	job.Decode(&a)
	w := newC08World(ctx)
	defer w.close()
	nq, ni := len(c08Queries()), len(w.idx)
	var alpha []c08Step
	for q := 0; q < nq; q++ {
		for i := 0; i < ni; i++ {
			alpha = append(alpha, c08Step{q, i})
		}
	}
	var vs []*rt.Violation
	idx := make([]int, 0, a.MaxDepth)
	n := 0
	var rec func() bool
	rec = func() bool {
		if len(idx) > 0 {
			steps := make([]c08Step, len(idx))
			for i, j := range idx {
				steps[i] = alpha[j]
			}
			ctx.Cov.Add("unmerged_sequences", 1)
			ctx.Cov.Add("traces_validated_against_impl", 1)
			if viol, _ := c08Play(w, steps, true); viol != "" {
				c := c08Case{Steps: steps}
				vs = append(vs, rt.NewViolation("C08", "reuse", c.sig(), c, "%s", viol))
				return false
			}
			c08Scribble = true
			viol, _ := c08Play(w, steps, true)
			c08Scribble = false
			if viol != "" {
				c := c08Case{Steps: steps, Edited: "scribble"}
				vs = append(vs, rt.NewViolation("C08", "reuse", c.sig()+" (the caller overwrites every Result it receives)", c, "%s (the caller overwrites every Result it receives)", viol))
				return false
			}
			if n++; n%512 == 0 && ctx.Expired() {
				ctx.Cov.Cap(fmt.Sprintf("unmerged enumeration (first operation %d): deadline", job.Shard))
				return false
			}
		}
		if len(idx) == a.MaxDepth {
			return true
		}
		for j := range alpha {
			if len(idx) == 0 && j != job.Shard {
				continue
			}
			idx = append(idx, j)
			ok := rec()
			idx = idx[:len(idx)-1]
			if !ok {
				return false
			}
		}
		return true
	}
	rec()
	return vs
}

func c08Run(ctx *rt.Ctx) []*rt.Violation {
	flk.Sequential(true)
	defer flk.Sequential(false)
	w := newC08World(ctx)
	defer w.close()
	nq, ni := len(c08Queries()), len(w.idx)
	var alpha []c08Step
	for q := 0; q < nq; q++ {
		for i := 0; i < ni; i++ {
			alpha = append(alpha, c08Step{q, i})
		}
	}
	var vs []*rt.Violation
	// (1) explicit-state BFS to fixpoint, states merged on the private state of all Query values
	seen := map[string]bool{}
	_, k0 := c08Play(w, nil, true)
	seen[k0] = true
	ctx.Cov.Add("states", 1)
	frontier := [][]c08Step{nil}
	depth := 0
	for len(frontier) > 0 && len(vs) == 0 {
		depth++
		var next [][]c08Step
		for _, h := range frontier {
			for _, st := range alpha {
				steps := append(append([]c08Step{}, h...), st)
				viol, key := c08Play(w, steps, true)
				ctx.Cov.Add("transitions", 1)
				ctx.Cov.Add("traces_validated_against_impl", 1)
				if viol != "" {
					c := c08Case{Steps: steps}
					vs = append(vs, rt.NewViolation("C08", "reuse", c.sig(), c, "%s", viol))
					break
				}
				if !seen[key] {
					seen[key] = true
					ctx.Cov.Add("states", 1)
					next = append(next, steps)
					ctx.Cov.Sample(4, map[string]any{"history": c08Case{Steps: steps}.sig(), "private_state": key})
				}
			}
			if len(vs) > 0 {
				break
			}
		}
		frontier = next
		ctx.Cov.Max("max_depth", int64(depth))
		if len(seen) > 20000 {
			// (seen on changed code that keeps history-dependent state in the Query: nothing merges any more)
			ctx.Cov.Cap(fmt.Sprintf("BFS stopped at depth %d with %d states", depth, len(seen)))
			break
		}
		if depth >= 12 || ctx.Expired() {
			ctx.Cov.Cap(fmt.Sprintf("BFS stopped at depth %d", depth))
			break
		}
	}
	// (2) cross-check of the merge: every sequence up to a depth, no merging, every step checked
	maxd := 3
	if ctx.Thorough() {
		maxd = 4
	}
	if len(vs) == 0 {
		// one worker process per first operation
		var jobs []rt.Job
		b, _ := json.Marshal(c08Args{MaxDepth: maxd})
		for s := range alpha {
			jobs = append(jobs, rt.Job{Name: "unmerged", Shard: s, NShards: len(alpha), Args: b})
		}
		vs = append(vs, rt.Collect(ctx, rt.RunJobs(ctx, jobs, rt.SpawnOpt{}), nil)...)
	}
	// (3) a Query whose expression is edited in place by the caller between executions behaves like a fresh query of the
	// new content (on the cached and on the uncached index)
	if len(vs) == 0 {
		if v := c08Edited(ctx, w); v != nil {
			vs = append(vs, v)
		}
	}
	// (4) one Query grouped by a column with exactly 2^16 (and 2^16 - 1, 2^16 + 1) distinct values, executed on two indexes
	// whose equally named, equally large columns hold different values
	if len(vs) == 0 {
		if v := c08BigColumn(ctx); v != nil {
			vs = append(vs, v)
		}
	}
	ctx.Cov.Note("unmerged_depth", maxd)
	ctx.Cov.Note("alphabet", fmt.Sprintf("%d Query values x %d indexes with different schemas = %d operations", nq, ni, len(alpha)))
	ctx.Cov.Note("rule", "BFS to fixpoint over execution histories, states merged on the private (non-Expr) fields of all Query values; plus every sequence up to unmerged_depth without merging; each execution compared with a freshly constructed equal query executed alone, Expr/GroupBy compared with pristine copies")
	ctx.Assumef("what a later execution returns depends only on the non-Expr fields of the Query values (states are merged on them); the unmerged enumeration cross-checks this up to its depth")
	return vs
}

func c08Edited(ctx *rt.Ctx, w *c08World) *rt.Violation {
	vals := []string{"x", "w", "k", "zz"}
	for ii, idx := range w.idx {
		for shape := 0; shape < 3; shape++ {
			for leaf := 0; leaf < 2; leaf++ {
				for _, v1 := range vals {
					for _, v2 := range vals {
						l := []*updog.ExprEqual{{Column: "a", Value: "x"}, {Column: "b", Value: "y"}}
						var e updog.Expression
						mk := func(a, b *model.Expr) *model.Expr {
							switch shape {
							case 0:
								return model.And(a, b)
							case 1:
								return model.Or(model.Not(a), b)
							}
							return model.Not(model.Or(model.And(a), b))
						}
						switch shape {
						case 0:
							e = &updog.ExprAnd{Exprs: []updog.Expression{l[0], l[1]}}
						case 1:
							e = &updog.ExprOr{Exprs: []updog.Expression{&updog.ExprNot{Expr: l[0]}, l[1]}}
						default:
							e = &updog.ExprNot{Expr: &updog.ExprOr{Exprs: []updog.Expression{&updog.ExprAnd{Exprs: []updog.Expression{l[0]}}, l[1]}}}
						}
						q := &updog.Query{Expr: e, GroupBy: []string{"b"}}
						var keepGB []string
						safeExec(idx, q)
						for step, v := range []string{v1, v2} {
							l[leaf].Value = v
							// the group-by list is a caller-visible field too: alternate between a list, none, and another list
							q.GroupBy = [][]string{{"b"}, nil, {"a", "b"}}[(step+len(v1))%3]
							if step == 1 && len(q.GroupBy) > 0 && len(v2) == 1 {
								// an element of the caller's own slice is changed in place (same slice, same length)
								q.GroupBy = keepGB
								if keepGB != nil {
									keepGB[0] = map[string]string{"a": "b", "b": "a"}[keepGB[0]]
								}
							}
							if len(q.GroupBy) > 0 {
								keepGB = q.GroupBy
							}
							fresh := append([]string{}, q.GroupBy...)
							got, _ := safeExec(idx, q)
							m := []*model.Expr{model.Eq("a", l[0].Value), model.Eq("b", l[1].Value)}
							want, _ := safeExec(idx, &updog.Query{Expr: mk(m[0], m[1]).Updog(), GroupBy: fresh})
							ctx.Cov.Add("edited_query_executions", 1)
							ctx.Cov.Add("traces_validated_against_impl", 1)
							if got != want {
								c := c08Case{Edited: fmt.Sprintf("index=%d shape=%d leaf=%d values=%s,%s step=%d", ii, shape, leaf, v1, v2, step+1)}
								return rt.NewViolation("C08", "edited", "edited "+c.Edited, c, "a Query was executed, one comparison value was changed to %q by the caller and it was executed again on index %d: got %s, a freshly constructed equal query returns %s", v, ii, got, want)
							}
						}
					}
				}
			}
		}
	}
	return nil
}

func c08BigColumn(ctx *rt.Ctx) *rt.Violation {
	for _, n := range []int{1<<16 - 1, 1 << 16, 1<<16 + 1} {
		var idx [2]*updog.Index
		for i := 0; i < 2; i++ {
			i := i
			p, _, err := ix.BuildFunc(ctx.Scratch, n, func(r int) model.Row {
				return model.Row{"big": fmt.Sprintf("%c%06d", 'p'+i, r), "k": strconv.Itoa(r % 3)}
			}, ix.MemFile)
			if err != nil {
				rt.Harnessf("build: %v", err)
			}
			defer removeFile(p)
			idx[i], err = ix.Open(p, false, nil)
			if err != nil {
				rt.Harnessf("open: %v", err)
			}
			defer idx[i].Close()
		}
		mk := func() *updog.Query {
			return &updog.Query{Expr: model.Eq("k", "1").Updog(), GroupBy: []string{"big"}}
		}
		q := mk()
		for step, i := range []int{0, 1, 0} {
			got, gerr := idx[i].Execute(q)
			want, werr := idx[i].Execute(mk())
			ctx.Cov.Add("big_column_executions", 1)
			if (gerr == nil) != (werr == nil) || (gerr == nil && !reflect.DeepEqual(got, want)) {
				first := ""
				if gerr == nil && werr == nil && len(got.Groups) > 0 && len(want.Groups) > 0 {
					first = fmt.Sprintf(" (first group %v, fresh query %v)", got.Groups[0], want.Groups[0])
				}
				c := c08Case{Edited: "bigcolumn"}
				return rt.NewViolation("C08", "reuse", fmt.Sprintf("bigcolumn values=%d step=%d", n, step+1), c, "a Query grouped by a column with %d values, executed on index A, then B, then A: execution %d differs from a fresh equal query%s", n, step+1, first)
			}
		}
	}
	return nil
}

func c08Replay(ctx *rt.Ctx, v *rt.Violation) *rt.Violation {
	var c c08Case
	if err := json.Unmarshal(v.Case, &c); err != nil {
		rt.Harnessf("case: %v", err)
	}
	w := newC08World(ctx)
	defer w.close()
	if c.Edited == "bigcolumn" {
		return c08BigColumn(ctx)
	}
	if c.Edited == "scribble" {
		c08Scribble = true
		defer func() { c08Scribble = false }()
		if viol, _ := c08Play(w, c.Steps, true); viol != "" {
			return rt.NewViolation("C08", "reuse", c.sig()+" (the caller overwrites every Result it receives)", c, "%s (the caller overwrites every Result it receives)", viol)
		}
		return nil
	}
	if c.Edited != "" {
		return c08Edited(ctx, w)
	}
	for n := 1; n <= len(c.Steps); n++ {
		if viol, _ := c08Play(w, c.Steps[:n], true); viol != "" {
			cc := c08Case{Steps: c.Steps[:n]}
			return rt.NewViolation("C08", "reuse", cc.sig(), cc, "%s", viol)
		}
	}
	return nil
}

func init() {
	register(&Property{ID: "C08", Level: "model_checking", Run: c08Run, Worker: c08Worker, Replay: c08Replay})
}
