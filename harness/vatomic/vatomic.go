// Package vatomic is a drop-in replacement for sync/atomic used when updog is built for
// verification: operations on the typed integer atomics are scheduling points.
package vatomic

import (
	"sync/atomic"
	"unsafe"

	"github.com/akrennmair/updog/zzverif/vsched"
)

type (
	Value = atomic.Value
)

type Pointer[T any] struct{ atomic.Pointer[T] }

func pt(p unsafe.Pointer) { vsched.Point(vsched.OpAtomic, uintptr(p), 0) }

type Int32 struct{ v atomic.Int32 }

func (x *Int32) Load() int32        { pt(unsafe.Pointer(x)); return x.v.Load() }
func (x *Int32) Store(v int32)      { pt(unsafe.Pointer(x)); x.v.Store(v) }
func (x *Int32) Swap(v int32) int32 { pt(unsafe.Pointer(x)); return x.v.Swap(v) }
func (x *Int32) Add(d int32) int32  { pt(unsafe.Pointer(x)); return x.v.Add(d) }
func (x *Int32) CompareAndSwap(o, n int32) bool {
	pt(unsafe.Pointer(x))
	return x.v.CompareAndSwap(o, n)
}

type Int64 struct{ v atomic.Int64 }

func (x *Int64) Load() int64        { pt(unsafe.Pointer(x)); return x.v.Load() }
func (x *Int64) Store(v int64)      { pt(unsafe.Pointer(x)); x.v.Store(v) }
func (x *Int64) Swap(v int64) int64 { pt(unsafe.Pointer(x)); return x.v.Swap(v) }
func (x *Int64) Add(d int64) int64  { pt(unsafe.Pointer(x)); return x.v.Add(d) }
func (x *Int64) CompareAndSwap(o, n int64) bool {
	pt(unsafe.Pointer(x))
	return x.v.CompareAndSwap(o, n)
}

type Uint32 struct{ v atomic.Uint32 }

func (x *Uint32) Load() uint32         { pt(unsafe.Pointer(x)); return x.v.Load() }
func (x *Uint32) Store(v uint32)       { pt(unsafe.Pointer(x)); x.v.Store(v) }
func (x *Uint32) Swap(v uint32) uint32 { pt(unsafe.Pointer(x)); return x.v.Swap(v) }
func (x *Uint32) Add(d uint32) uint32  { pt(unsafe.Pointer(x)); return x.v.Add(d) }
func (x *Uint32) CompareAndSwap(o, n uint32) bool {
	pt(unsafe.Pointer(x))
	return x.v.CompareAndSwap(o, n)
}

type Uint64 struct{ v atomic.Uint64 }

func (x *Uint64) Load() uint64         { pt(unsafe.Pointer(x)); return x.v.Load() }
func (x *Uint64) Store(v uint64)       { pt(unsafe.Pointer(x)); x.v.Store(v) }
func (x *Uint64) Swap(v uint64) uint64 { pt(unsafe.Pointer(x)); return x.v.Swap(v) }
func (x *Uint64) Add(d uint64) uint64  { pt(unsafe.Pointer(x)); return x.v.Add(d) }
func (x *Uint64) CompareAndSwap(o, n uint64) bool {
	pt(unsafe.Pointer(x))
	return x.v.CompareAndSwap(o, n)
}

type Bool struct{ v atomic.Bool }

func (x *Bool) Load() bool       { pt(unsafe.Pointer(x)); return x.v.Load() }
func (x *Bool) Store(v bool)     { pt(unsafe.Pointer(x)); x.v.Store(v) }
func (x *Bool) Swap(v bool) bool { pt(unsafe.Pointer(x)); return x.v.Swap(v) }
func (x *Bool) CompareAndSwap(o, n bool) bool {
	pt(unsafe.Pointer(x))
	return x.v.CompareAndSwap(o, n)
}

func AddInt32(a *int32, d int32) int32     { pt(unsafe.Pointer(a)); return atomic.AddInt32(a, d) }
func AddInt64(a *int64, d int64) int64     { pt(unsafe.Pointer(a)); return atomic.AddInt64(a, d) }
func AddUint32(a *uint32, d uint32) uint32 { pt(unsafe.Pointer(a)); return atomic.AddUint32(a, d) }
func AddUint64(a *uint64, d uint64) uint64 { pt(unsafe.Pointer(a)); return atomic.AddUint64(a, d) }
func LoadInt32(a *int32) int32             { pt(unsafe.Pointer(a)); return atomic.LoadInt32(a) }
func LoadInt64(a *int64) int64             { pt(unsafe.Pointer(a)); return atomic.LoadInt64(a) }
func LoadUint32(a *uint32) uint32          { pt(unsafe.Pointer(a)); return atomic.LoadUint32(a) }
func LoadUint64(a *uint64) uint64          { pt(unsafe.Pointer(a)); return atomic.LoadUint64(a) }
func StoreInt32(a *int32, v int32)         { pt(unsafe.Pointer(a)); atomic.StoreInt32(a, v) }
func StoreInt64(a *int64, v int64)         { pt(unsafe.Pointer(a)); atomic.StoreInt64(a, v) }
func StoreUint32(a *uint32, v uint32)      { pt(unsafe.Pointer(a)); atomic.StoreUint32(a, v) }
func StoreUint64(a *uint64, v uint64)      { pt(unsafe.Pointer(a)); atomic.StoreUint64(a, v) }
func CompareAndSwapInt32(a *int32, o, n int32) bool {
	pt(unsafe.Pointer(a))
	return atomic.CompareAndSwapInt32(a, o, n)
}
func CompareAndSwapInt64(a *int64, o, n int64) bool {
	pt(unsafe.Pointer(a))
	return atomic.CompareAndSwapInt64(a, o, n)
}
func CompareAndSwapUint32(a *uint32, o, n uint32) bool {
	pt(unsafe.Pointer(a))
	return atomic.CompareAndSwapUint32(a, o, n)
}
func CompareAndSwapUint64(a *uint64, o, n uint64) bool {
	pt(unsafe.Pointer(a))
	return atomic.CompareAndSwapUint64(a, o, n)
}
