package vsync

import (
	"fmt"
	"testing"

	"github.com/akrennmair/updog/zzverif/vsched"
)

func TestCondUnderScheduler(t *testing.T) {
	n := 0
	sc := func() ([]func(), func(*vsched.Result) string) {
		var mu Mutex
		c := NewCond(&mu)
		ready := false
		got := 0
		bodies := []func(){
			func() {
				mu.Lock()
				for !ready {
					c.Wait()
				}
				got = 1
				mu.Unlock()
			},
			func() {
				mu.Lock()
				ready = true
				c.Broadcast()
				mu.Unlock()
			},
		}
		return bodies, func(r *vsched.Result) string {
			n++
			if got != 1 {
				return "waiter did not finish"
			}
			return ""
		}
	}
	ex := &vsched.Explorer{Scenario: sc, Bound: -1}
	st := ex.Explore()
	fmt.Println("schedules", st.Schedules, "violation", st.Violation, "complete", st.Complete)
	if st.Violation != "" {
		t.Fatal(st.Violation)
	}
}

func TestChanSelectUnderScheduler(t *testing.T) {
	sc := func() ([]func(), func(*vsched.Result) string) {
		done := make(chan struct{})
		res := make(chan int, 1)
		out := 0
		bodies := []func(){
			func() {
				z := SelectBegin()
				select {
				case v := <-res:
					SelectEnd(z)
					out = v
				case <-done:
					SelectEnd(z)
					out = -1
				}
			},
			func() { Send(res, 7) },
			func() { Close(done) },
		}
		return bodies, func(r *vsched.Result) string {
			if out != 7 && out != -1 {
				return fmt.Sprint("out=", out)
			}
			return ""
		}
	}
	ex := &vsched.Explorer{Scenario: sc, Bound: -1}
	st := ex.Explore()
	fmt.Println("schedules", st.Schedules, "violation", st.Violation, "outcomes", st.Outcomes)
	if st.Violation != "" {
		t.Fatal(st.Violation)
	}
}
