// Package vsync is a drop-in replacement for package sync used when updog is built for
// verification: Mutex, RWMutex and WaitGroup announce every operation to zzverif/vsched
// before performing the real operation. Outside an active exploration (or on goroutines that
// are not managed threads) every type behaves exactly like its sync counterpart.
package vsync

import (
	"reflect"
	"runtime"
	"strings"
	"sync"
	"time"
	"unsafe"

	"github.com/akrennmair/updog/zzverif/vsched"
)

type (
	Locker = sync.Locker
	Once   = sync.Once
)

// Map is sync.Map with every operation announced to the scheduler (each is atomic on its own, but a sequence such as
// Load-then-Store is not: another thread must be able to run in between).
type Map struct{ m sync.Map }

func (m *Map) pt() { vsched.Point(vsched.OpAtomic, uintptr(unsafe.Pointer(m)), 0) }

func (m *Map) Load(key any) (any, bool)               { m.pt(); return m.m.Load(key) }
func (m *Map) Store(key, value any)                   { m.pt(); m.m.Store(key, value) }
func (m *Map) LoadOrStore(key, value any) (any, bool) { m.pt(); return m.m.LoadOrStore(key, value) }
func (m *Map) LoadAndDelete(key any) (any, bool)      { m.pt(); return m.m.LoadAndDelete(key) }
func (m *Map) Delete(key any)                         { m.pt(); m.m.Delete(key) }
func (m *Map) Swap(key, value any) (any, bool)        { m.pt(); return m.m.Swap(key, value) }
func (m *Map) CompareAndSwap(key, old, new any) bool {
	m.pt()
	return m.m.CompareAndSwap(key, old, new)
}
func (m *Map) CompareAndDelete(key, old any) bool { m.pt(); return m.m.CompareAndDelete(key, old) }
func (m *Map) Range(f func(key, value any) bool)  { m.pt(); m.m.Range(f) }
func (m *Map) Clear()                             { m.pt(); m.m.Clear() }

// Channel operations. tools/prep rewrites `<-ch`, `v, ok := <-ch`, `ch <- v` and `close(ch)` (outside the communication
// clauses of a select) in the packages under test into calls of these functions. The operation itself is the real one;
// the scheduler is told that the goroutine may park in it (vsched.ExtBegin / ExtEnd), notices when it does, and lets the
// other threads run until somebody completes the operation.

func chanID(ch any) uintptr {
	v := reflect.ValueOf(ch)
	if !v.IsValid() || v.IsNil() {
		return 0
	}
	return v.Pointer()
}

func Recv[T any](ch <-chan T) T {
	v, _ := Recv2(ch)
	return v
}

func Recv2[T any](ch <-chan T) (v T, ok bool) {
	t := vsched.ExtBegin(chanID(ch))
	if t == nil && Sequential {
		// sequential harness: a receive that nobody can ever complete is a hang, decided by state (see SeqAcquire)
		SeqAcquire(func() bool {
			select {
			case v, ok = <-ch:
				return true
			default:
				return false
			}
		}, "channel receive")
		return v, ok
	}
	v, ok = <-ch
	vsched.ExtEnd(t)
	return v, ok
}

func Send[T any](ch chan<- T, v T) {
	t := vsched.ExtBegin(chanID(ch))
	if t == nil && Sequential {
		SeqAcquire(func() bool {
			select {
			case ch <- v:
				return true
			default:
				return false
			}
		}, "channel send")
		return
	}
	ch <- v
	vsched.ExtEnd(t)
}

func Close[T any](ch chan<- T) {
	vsched.Point(vsched.OpAtomic, chanID(ch), 0)
	close(ch)
}

// Pool is sync.Pool with Get and Put announced to the scheduler. Under the scheduler Get hands out the most recently Put
// object (the real pool may return anything or nothing; a shared object is the interesting case).
type Pool struct {
	New func() any
	p   sync.Pool
	mu  sync.Mutex
	lst []any
}

func (p *Pool) Get() any {
	if vsched.Point(vsched.OpAtomic, uintptr(unsafe.Pointer(p)), 0) {
		p.mu.Lock()
		if n := len(p.lst); n > 0 {
			x := p.lst[n-1]
			p.lst = p.lst[:n-1]
			p.mu.Unlock()
			return x
		}
		p.mu.Unlock()
		if p.New != nil {
			return p.New()
		}
		return nil
	}
	if x := p.p.Get(); x != nil {
		return x
	}
	if p.New != nil {
		return p.New()
	}
	return nil
}

func (p *Pool) Put(x any) {
	if vsched.Point(vsched.OpAtomic, uintptr(unsafe.Pointer(p)), 0) {
		p.mu.Lock()
		p.lst = append(p.lst, x)
		p.mu.Unlock()
		return
	}
	p.p.Put(x)
}

// Cond is sync.Cond on a shim Locker. Wait is performed for real (it unlocks and re-locks L through the shim, which
// are ordinary scheduling points); the scheduler is told that the goroutine may park in it and takes the turn away when
// it does (vsched.ExtBegin / ExtEnd). Signal and Broadcast are scheduling points.
type Cond struct {
	L    Locker
	once sync.Once
	c    *sync.Cond
}

func NewCond(l Locker) *Cond { return &Cond{L: l} }

func (c *Cond) real() *sync.Cond {
	c.once.Do(func() { c.c = sync.NewCond(c.L) })
	return c.c
}

func (c *Cond) Wait() {
	r := c.real()
	t := vsched.ExtBegin(uintptr(unsafe.Pointer(c)))
	r.Wait()
	vsched.ExtEnd(t)
}

func (c *Cond) Signal() {
	r := c.real()
	vsched.Point(vsched.OpAtomic, uintptr(unsafe.Pointer(c)), 0)
	r.Signal()
}

func (c *Cond) Broadcast() {
	r := c.real()
	vsched.Point(vsched.OpAtomic, uintptr(unsafe.Pointer(c)), 0)
	r.Broadcast()
}

// SelectBegin / SelectEnd bracket a select statement with communication clauses (tools/prep puts SelectBegin in front
// of the statement and SelectEnd at the start of every clause body): the select is performed for real, the scheduler
// learns that the goroutine may park in it.
func SelectBegin() *vsched.Thread { return vsched.ExtBegin(0) }
func SelectEnd(t *vsched.Thread)  { vsched.ExtEnd(t) }

func OnceFunc(f func()) func()                                 { return sync.OnceFunc(f) }
func OnceValue[T any](f func() T) func() T                     { return sync.OnceValue(f) }
func OnceValues[T1, T2 any](f func() (T1, T2)) func() (T1, T2) { return sync.OnceValues(f) }

// Sequential is set by single-goroutine harnesses: a lock that cannot be taken immediately will never be released by
// anybody, so instead of blocking forever the shim panics with Blocked (a state-based verdict "this call hangs").
var Sequential bool

// Blocked is the panic value of a lock operation that would block forever in a sequential harness.
type Blocked struct{ Op string }

func (b Blocked) Error() string {
	return b.Op + " would block forever (nobody is left who could release or complete it)"
}

// SeqAcquire is the blocking acquisition of a sequential harness: try is attempted until it succeeds; the verdict "this
// call hangs" (panic Blocked) is given only when every OTHER goroutine of the process is parked in a wait that only
// another goroutine could end (channel operation, lock, cond, waitgroup) on 50 consecutive looks 2 ms apart - i.e. when
// nobody is left who could release what the caller waits for. Goroutines started by the code under test (a parallel
// loader, a background flusher) that are running, sleeping or in a system call keep the caller waiting, as they should.
func SeqAcquire(try func() bool, op string) {
	if try() {
		return
	}
	quiet := 0
	for {
		runtime.Gosched()
		if try() {
			return
		}
		if othersParked() {
			quiet++
		} else {
			quiet = 0
		}
		if quiet >= 50 {
			panic(Blocked{op})
		}
		time.Sleep(2 * time.Millisecond)
	}
}

var parkedStates = []string{"chan receive", "chan send", "select", "semacquire", "sync.Mutex.Lock", "sync.RWMutex.RLock", "sync.RWMutex.Lock", "sync.Cond.Wait", "sync.WaitGroup.Wait"}

// othersParked reports whether every goroutine except the caller is parked in a wait that only another goroutine can end.
func othersParked() bool {
	buf := make([]byte, 1<<16)
	for {
		n := runtime.Stack(buf, true)
		if n < len(buf) {
			buf = buf[:n]
			break
		}
		buf = make([]byte, 2*len(buf))
	}
	first := true
	for _, blk := range strings.Split(string(buf), "\n\n") {
		if !strings.HasPrefix(blk, "goroutine ") {
			continue
		}
		if first { // the caller itself is printed first
			first = false
			continue
		}
		if strings.Contains(blk, "vsync.SeqAcquire(") {
			continue // waits like the caller does (it polls, so the runtime shows it as sleeping or runnable)
		}
		i, j := strings.IndexByte(blk, '['), strings.IndexByte(blk, ']')
		if i < 0 || j < i {
			return false
		}
		st := blk[i+1 : j]
		if k := strings.IndexByte(st, ','); k >= 0 {
			st = st[:k]
		}
		ok := false
		for _, p := range parkedStates {
			ok = ok || strings.HasPrefix(st, p)
		}
		if !ok {
			return false
		}
	}
	return true
}

// Go runs fn on a new goroutine; a managed thread creates a managed thread.
func Go(fn func()) { vsched.Go(fn) }

type Mutex struct {
	mu sync.Mutex
}

func (m *Mutex) Lock() {
	if !vsched.Point(vsched.OpLock, uintptr(unsafe.Pointer(m)), 0) && Sequential {
		SeqAcquire(m.mu.TryLock, "Mutex.Lock")
		return
	}
	m.mu.Lock()
}

func (m *Mutex) Unlock() {
	// announce, then release. Normally the scheduler continues the same thread at once (no choice), so the shadow
	// state and the real lock change together; for a mutex that somebody has TryLock'ed the announcement is a choice
	// point taken while the lock is still held, so that another thread's TryLock can observe it as held.
	vsched.Point(vsched.OpUnlock, uintptr(unsafe.Pointer(m)), 0)
	m.mu.Unlock()
}

func (m *Mutex) TryLock() bool {
	if managed, ok := vsched.TryPoint(vsched.OpTryLock, uintptr(unsafe.Pointer(m))); managed {
		if ok {
			m.mu.Lock()
		}
		return ok
	}
	return m.mu.TryLock()
}

type RWMutex struct {
	mu sync.RWMutex
}

func (m *RWMutex) Lock() {
	p := uintptr(unsafe.Pointer(m))
	if vsched.Point(vsched.OpWLockReq, p, 0) {
		vsched.Point(vsched.OpLock, p, 0)
	} else if Sequential {
		SeqAcquire(m.mu.TryLock, "RWMutex.Lock")
		return
	}
	m.mu.Lock()
}

func (m *RWMutex) Unlock() {
	m.mu.Unlock()
	vsched.Point(vsched.OpWUnlock, uintptr(unsafe.Pointer(m)), 0)
}

func (m *RWMutex) RLock() {
	if !vsched.Point(vsched.OpRLock, uintptr(unsafe.Pointer(m)), 0) && Sequential {
		SeqAcquire(m.mu.TryRLock, "RWMutex.RLock")
		return
	}
	m.mu.RLock()
}

func (m *RWMutex) RUnlock() {
	m.mu.RUnlock()
	vsched.Point(vsched.OpRUnlock, uintptr(unsafe.Pointer(m)), 0)
}

func (m *RWMutex) TryLock() bool {
	// not used by updog; conservative pass-through (not a scheduling point)
	return m.mu.TryLock()
}

func (m *RWMutex) TryRLock() bool {
	if managed, ok := vsched.TryPoint(vsched.OpTryRLock, uintptr(unsafe.Pointer(m))); managed {
		if ok {
			m.mu.RLock()
		}
		return ok
	}
	return m.mu.TryRLock()
}

type rlocker RWMutex

func (r *rlocker) Lock()   { (*RWMutex)(r).RLock() }
func (r *rlocker) Unlock() { (*RWMutex)(r).RUnlock() }

func (m *RWMutex) RLocker() Locker { return (*rlocker)(m) }

type WaitGroup struct {
	wg sync.WaitGroup
}

func (w *WaitGroup) Add(delta int) {
	vsched.Point(vsched.OpWgAdd, uintptr(unsafe.Pointer(w)), delta)
	w.wg.Add(delta)
}

func (w *WaitGroup) Done() { w.Add(-1) }

func (w *WaitGroup) Wait() {
	vsched.Point(vsched.OpWgWait, uintptr(unsafe.Pointer(w)), 0)
	w.wg.Wait()
}
