// Package model holds the deliberately naive reference models: rows as maps, expressions as a
// small tree, counting by plain bit vectors, group-by by brute force over the value product.
package model

import (
	"encoding/hex"
	"encoding/json"
	"fmt"
	"math/bits"
	"sort"
	"strings"
	"unicode/utf8"

	"github.com/akrennmair/updog"
)

type Row = map[string]string

// Expr is a serialisable expression tree.
type Expr struct {
	Op   string  `json:"op"` // eq | not | and | or
	Col  string  `json:"col,omitempty"`
	Val  string  `json:"val,omitempty"`
	Kids []*Expr `json:"kids,omitempty"`
}

// exprJSON is the wire form: strings that are not valid UTF-8 travel hex-encoded (encoding/json would replace the bytes).
type exprJSON struct {
	Op     string  `json:"op"`
	Col    string  `json:"col,omitempty"`
	Val    string  `json:"val,omitempty"`
	ColHex string  `json:"col_hex,omitempty"`
	ValHex string  `json:"val_hex,omitempty"`
	Kids   []*Expr `json:"kids,omitempty"`
}

func (e *Expr) MarshalJSON() ([]byte, error) {
	j := exprJSON{Op: e.Op, Col: e.Col, Val: e.Val, Kids: e.Kids}
	if !utf8.ValidString(e.Col) {
		j.Col, j.ColHex = "", hex.EncodeToString([]byte(e.Col))
	}
	if !utf8.ValidString(e.Val) {
		j.Val, j.ValHex = "", hex.EncodeToString([]byte(e.Val))
	}
	return json.Marshal(j)
}

func (e *Expr) UnmarshalJSON(b []byte) error {
	var j exprJSON
	if err := json.Unmarshal(b, &j); err != nil {
		return err
	}
	*e = Expr{Op: j.Op, Col: j.Col, Val: j.Val, Kids: j.Kids}
	if j.ColHex != "" {
		x, _ := hex.DecodeString(j.ColHex)
		e.Col = string(x)
	}
	if j.ValHex != "" {
		x, _ := hex.DecodeString(j.ValHex)
		e.Val = string(x)
	}
	return nil
}

func Eq(c, v string) *Expr { return &Expr{Op: "eq", Col: c, Val: v} }
func Not(e *Expr) *Expr    { return &Expr{Op: "not", Kids: []*Expr{e}} }
func And(k ...*Expr) *Expr { return &Expr{Op: "and", Kids: k} }
func Or(k ...*Expr) *Expr  { return &Expr{Op: "or", Kids: k} }

func (e *Expr) String() string {
	switch e.Op {
	case "eq":
		return fmt.Sprintf("%s=%q", quoteIfOdd(e.Col), e.Val)
	case "not":
		return "^" + e.Kids[0].String()
	}
	var s []string
	for _, k := range e.Kids {
		s = append(s, k.String())
	}
	sep := " & "
	if e.Op == "or" {
		sep = " | "
	}
	return e.Op + "(" + strings.Join(s, sep) + ")"
}

// Updog converts to the library's expression type (fresh objects every time).
func (e *Expr) Updog() updog.Expression {
	switch e.Op {
	case "eq":
		return &updog.ExprEqual{Column: e.Col, Value: e.Val}
	case "not":
		return &updog.ExprNot{Expr: e.Kids[0].Updog()}
	case "and":
		x := &updog.ExprAnd{}
		for _, k := range e.Kids {
			x.Exprs = append(x.Exprs, k.Updog())
		}
		return x
	case "or":
		x := &updog.ExprOr{}
		for _, k := range e.Kids {
			x.Exprs = append(x.Exprs, k.Updog())
		}
		return x
	}
	panic("bad expr op " + e.Op)
}

func (e *Expr) Depth() int {
	d := 0
	for _, k := range e.Kids {
		if kd := k.Depth() + 1; kd > d {
			d = kd
		}
	}
	return d
}

func (e *Expr) Ops() int {
	n := 0
	if e.Op != "eq" {
		n = 1
	}
	for _, k := range e.Kids {
		n += k.Ops()
	}
	return n
}

// Bits is a plain bit vector over row ids.
type Bits []uint64

func NewBits(n int) Bits      { return make(Bits, (n+63)/64) }
func (b Bits) Set(i int)      { b[i/64] |= 1 << (uint(i) % 64) }
func (b Bits) Has(i int) bool { return b[i/64]&(1<<(uint(i)%64)) != 0 }
func (b Bits) Count() uint64 {
	var n int
	for _, w := range b {
		n += bits.OnesCount64(w)
	}
	return uint64(n)
}

// Data is the reference representation of a dataset: for each column and value the set of rows.
type Data struct {
	N    int
	Cols map[string]map[string]Bits
}

func NewData(n int) *Data { return &Data{N: n, Cols: map[string]map[string]Bits{}} }

func (d *Data) Add(row int, col, val string) {
	c := d.Cols[col]
	if c == nil {
		c = map[string]Bits{}
		d.Cols[col] = c
	}
	b := c[val]
	if b == nil {
		b = NewBits(d.N)
		c[val] = b
	}
	b.Set(row)
}

func FromRows(rows []Row) *Data {
	d := NewData(len(rows))
	for i, r := range rows {
		for k, v := range r {
			d.Add(i, k, v)
		}
	}
	return d
}

type UnknownColumn struct{ Col string }

func (u UnknownColumn) Error() string { return "unknown column " + u.Col }

// Eval returns the rows satisfying e; a column that occurs in no row is an error.
func (d *Data) Eval(e *Expr) (Bits, error) {
	switch e.Op {
	case "eq":
		c, ok := d.Cols[e.Col]
		if !ok {
			return nil, UnknownColumn{e.Col}
		}
		out := NewBits(d.N)
		if b, ok := c[e.Val]; ok {
			copy(out, b)
		}
		return out, nil
	case "not":
		k, err := d.Eval(e.Kids[0])
		if err != nil {
			return nil, err
		}
		out := NewBits(d.N)
		for i := range out {
			out[i] = ^k[i]
		}
		if r := d.N % 64; r != 0 && len(out) > 0 {
			out[len(out)-1] &= (1 << uint(r)) - 1
		}
		return out, nil
	case "and", "or":
		var out Bits
		for i, kid := range e.Kids {
			k, err := d.Eval(kid)
			if err != nil {
				return nil, err
			}
			if i == 0 {
				out = k
				continue
			}
			for j := range out {
				if e.Op == "and" {
					out[j] &= k[j]
				} else {
					out[j] |= k[j]
				}
			}
		}
		if out == nil {
			return nil, fmt.Errorf("operator without operands")
		}
		return out, nil
	}
	return nil, fmt.Errorf("bad op")
}

func (d *Data) Count(e *Expr) (uint64, error) {
	b, err := d.Eval(e)
	if err != nil {
		return 0, err
	}
	return b.Count(), nil
}

type Field struct{ Column, Value string }
type Group struct {
	Fields []Field
	Count  uint64
}

// GroupBy is SQL GROUP BY cols with COUNT(*)>0 over the rows in sel, ordered lexicographically.
func (d *Data) GroupBy(sel Bits, cols []string) ([]Group, error) {
	if len(cols) == 0 {
		return nil, nil
	}
	for _, c := range cols {
		if _, ok := d.Cols[c]; !ok {
			return nil, UnknownColumn{c}
		}
	}
	var out []Group
	var rec func(i int, cur Bits, fields []Field)
	rec = func(i int, cur Bits, fields []Field) {
		if i == len(cols) {
			if n := cur.Count(); n > 0 {
				out = append(out, Group{Fields: append([]Field{}, fields...), Count: n})
			}
			return
		}
		var vals []string
		for v := range d.Cols[cols[i]] {
			vals = append(vals, v)
		}
		sort.Strings(vals)
		for _, v := range vals {
			b := d.Cols[cols[i]][v]
			nx := NewBits(d.N)
			any := false
			for j := range nx {
				nx[j] = cur[j] & b[j]
				any = any || nx[j] != 0
			}
			if !any {
				continue
			}
			rec(i+1, nx, append(fields, Field{cols[i], v}))
		}
	}
	rec(0, sel, nil)
	return out, nil
}

// Schema returns sorted columns with sorted distinct values.
func (d *Data) Schema() [][]string {
	var cols []string
	for c := range d.Cols {
		cols = append(cols, c)
	}
	sort.Strings(cols)
	var out [][]string
	for _, c := range cols {
		l := []string{c}
		var vals []string
		for v := range d.Cols[c] {
			vals = append(vals, v)
		}
		sort.Strings(vals)
		out = append(out, append(l, vals...))
	}
	return out
}

// Trees enumerates all expression trees of depth <= depth whose AND/OR nodes have 1..arity operands
// (duplicates allowed), over the given leaves. The result for depth d contains the result for d-1.
func Trees(leaves []*Expr, depth, arity int) []*Expr {
	cur := append([]*Expr{}, leaves...)
	for d := 0; d < depth; d++ {
		next := append([]*Expr{}, leaves...)
		for _, k := range cur {
			next = append(next, Not(k))
		}
		for _, op := range []string{"and", "or"} {
			idx := make([]int, 0, arity)
			var rec func()
			rec = func() {
				if len(idx) > 0 {
					kids := make([]*Expr, len(idx))
					for i, j := range idx {
						kids[i] = cur[j]
					}
					next = append(next, &Expr{Op: op, Kids: kids})
				}
				if len(idx) == arity {
					return
				}
				for j := range cur {
					idx = append(idx, j)
					rec()
					idx = idx[:len(idx)-1]
				}
			}
			rec()
		}
		cur = next
	}
	return cur
}

// TreeCount is len(Trees(...)) without materialising them.
func TreeCount(leaves, depth, arity int) int64 {
	cur := int64(leaves)
	for d := 0; d < depth; d++ {
		var s, p int64 = 0, 1
		for k := 1; k <= arity; k++ {
			p *= cur
			s += p
		}
		cur = int64(leaves) + cur + 2*s
	}
	return cur
}

func quoteIfOdd(s string) string {
	for _, r := range s {
		if !(r >= 'a' && r <= 'z' || r >= 'A' && r <= 'Z' || r >= '0' && r <= '9' || r == '_') {
			return fmt.Sprintf("%q", s)
		}
	}
	if s == "" {
		return `""`
	}
	return s
}
