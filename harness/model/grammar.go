package model

import (
	"fmt"
	"strconv"
	"strings"
)

// Reference recogniser of the documented query grammar (queryparser.go header), with end of input required.
//
//   query ::= expr [ ';' field-list ]            expr ::= simple-expr | and-expr | or-expr
//   simple-expr ::= '(' expr ')' | '^' simple-expr | comparison
//   and-expr ::= simple-expr { '&' simple-expr }  or-expr ::= simple-expr { '|' simple-expr }
//   comparison ::= field '=' ( value | placeholder )   field-list ::= field { ',' field }
//   value ::= '"' { any-character-except-quote | '""' } '"'    placeholder ::= '$' digit {digit}   (1..2^31-1)

// PExpr is the prescribed tree.
type PExpr struct {
	Op          string // eq | not | and | or
	Col, Val    string
	Placeholder int
	Kids        []*PExpr
}

func (e *PExpr) String() string {
	switch e.Op {
	case "eq":
		if e.Placeholder > 0 {
			return fmt.Sprintf("(eq %s $%d)", e.Col, e.Placeholder)
		}
		return fmt.Sprintf("(eq %s %q)", e.Col, e.Val)
	}
	s := "(" + e.Op
	for _, k := range e.Kids {
		s += " " + k.String()
	}
	return s + ")"
}

type PQuery struct {
	Expr    *PExpr
	GroupBy []string
}

func (q *PQuery) String() string {
	return q.Expr.String() + " ; " + strings.Join(q.GroupBy, ",")
}

type tok struct {
	kind string // ( ) & | ^ , ; = field value placeholder
	text string
}

func isFieldStart(c byte) bool { return c >= 'a' && c <= 'z' || c >= 'A' && c <= 'Z' }
func isFieldChar(c byte) bool  { return isFieldStart(c) || c >= '0' && c <= '9' || c == '_' }

// Tokenize: maximal munch; ok=false when the input contains something that is no token.
func Tokenize(s string) (toks []tok, ok bool) {
	i := 0
	for i < len(s) {
		c := s[i]
		switch {
		case c == ' ' || c == '\t' || c == '\r' || c == '\n':
			i++
		case strings.IndexByte("()&|^,;=", c) >= 0:
			toks = append(toks, tok{string(c), string(c)})
			i++
		case isFieldStart(c):
			j := i
			for j < len(s) && isFieldChar(s[j]) {
				j++
			}
			toks = append(toks, tok{"field", s[i:j]})
			i = j
		case c == '"':
			j := i + 1
			var val strings.Builder
			closed := false
			for j < len(s) {
				if s[j] == '"' {
					if j+1 < len(s) && s[j+1] == '"' {
						val.WriteByte('"')
						j += 2
						continue
					}
					closed = true
					j++
					break
				}
				val.WriteByte(s[j])
				j++
			}
			if !closed {
				return nil, false // unterminated string
			}
			toks = append(toks, tok{"value", val.String()})
			i = j
		case c == '$':
			j := i + 1
			for j < len(s) && s[j] >= '0' && s[j] <= '9' {
				j++
			}
			toks = append(toks, tok{"placeholder", s[i+1 : j]})
			i = j
		default:
			return nil, false
		}
	}
	return toks, true
}

type gparser struct {
	toks []tok
	pos  int
	bad  bool
}

func (p *gparser) peek() string {
	if p.pos < len(p.toks) {
		return p.toks[p.pos].kind
	}
	return "EOF"
}
func (p *gparser) next() tok { t := p.toks[p.pos]; p.pos++; return t }

// ParseRef returns the prescribed tree, or nil when s is not a sentence of the grammar.
func ParseRef(s string) *PQuery {
	toks, ok := Tokenize(s)
	if !ok {
		return nil
	}
	p := &gparser{toks: toks}
	e := p.expr()
	if p.bad {
		return nil
	}
	q := &PQuery{Expr: e}
	if p.peek() == ";" {
		p.next()
		if p.peek() != "field" {
			return nil
		}
		q.GroupBy = append(q.GroupBy, p.next().text)
		for p.peek() == "," {
			p.next()
			if p.peek() != "field" {
				return nil
			}
			q.GroupBy = append(q.GroupBy, p.next().text)
		}
	}
	if p.peek() != "EOF" {
		return nil
	}
	return q
}

func (p *gparser) expr() *PExpr {
	first := p.simple()
	if p.bad {
		return nil
	}
	op := p.peek()
	if op != "&" && op != "|" {
		return first
	}
	name := map[string]string{"&": "and", "|": "or"}[op]
	e := &PExpr{Op: name, Kids: []*PExpr{first}}
	for p.peek() == op {
		p.next()
		k := p.simple()
		if p.bad {
			return nil
		}
		e.Kids = append(e.Kids, k)
	}
	return e
}

func (p *gparser) simple() *PExpr {
	switch p.peek() {
	case "(":
		p.next()
		e := p.expr()
		if p.bad {
			return nil
		}
		if p.peek() != ")" {
			p.bad = true
			return nil
		}
		p.next()
		return e
	case "^":
		p.next()
		k := p.simple()
		if p.bad {
			return nil
		}
		return &PExpr{Op: "not", Kids: []*PExpr{k}}
	case "field":
		col := p.next().text
		if p.peek() != "=" {
			p.bad = true
			return nil
		}
		p.next()
		switch p.peek() {
		case "value":
			return &PExpr{Op: "eq", Col: col, Val: p.next().text}
		case "placeholder":
			d := p.next().text
			if d == "" || len(strings.TrimLeft(d, "0")) > 10 {
				p.bad = true
				return nil
			}
			n, err := strconv.ParseInt(d, 10, 64)
			if err != nil || n < 1 || n > 1<<31-1 {
				p.bad = true
				return nil
			}
			return &PExpr{Op: "eq", Col: col, Placeholder: int(n)}
		}
	}
	p.bad = true
	return nil
}
