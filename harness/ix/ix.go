// Package ix builds and opens real updog indexes for the property drivers.
package ix

import (
	"fmt"
	"os"
	"path/filepath"
	"reflect"
	"unsafe"

	"github.com/akrennmair/updog"
	"github.com/akrennmair/updog/zzverif/model"
	"go.etcd.io/bbolt"
)

type Writer int

const (
	MemFile Writer = iota // IndexWriter.Flush to a file
	MemDB                 // IndexWriter.WriteToBoltDatabase into a caller-supplied DB
	Big                   // BigIndexWriter
)

var WriterNames = []string{"mem-file", "mem-db", "big"}

func (w Writer) String() string { return WriterNames[w] }

var seq int

// Build writes rows through the chosen writer into a new file under dir and returns its path and
// the row ids AddRow returned.
func Build(dir string, rows []model.Row, w Writer) (string, []uint32, error) {
	return BuildFunc(dir, len(rows), func(i int) model.Row { return rows[i] }, w)
}

// TolerateRejects: an AddRow that returns an error is taken as "this row was refused" (recorded in Rejected, id slot
// RejectedID) instead of ending the build: a writer may validate its input; what it must not do is add half of a row.
var (
	TolerateRejects bool
	Rejected        []int
)

const RejectedID = ^uint32(0)

func BuildFunc(dir string, n int, row func(i int) model.Row, w Writer) (string, []uint32, error) {
	// every row is handed to AddRow in ONE map that is refilled for the next row and scribbled over before Flush (what an
	// ingest loop does): a writer that keeps the caller's map instead of consuming it indexes later contents
	buf := map[string]string{}
	reuse := func(r model.Row) map[string]string {
		for k := range buf {
			buf[k] = "\x00stale " + k
		}
		clear(buf)
		for k, v := range r {
			buf[k] = v
		}
		return buf
	}
	scribble := func() {
		for k := range buf {
			buf[k] = "\x00scribbled"
		}
		buf["\x00scribbled column"] = "x"
	}
	seq++
	Rejected = nil
	path := filepath.Join(dir, fmt.Sprintf("ix%d-%s.updog", seq, w))
	ids := make([]uint32, 0, n)
	switch w {
	case MemFile, MemDB:
		iw := updog.NewIndexWriter(path)
		for i := 0; i < n; i++ {
			id, err := iw.AddRow(reuse(row(i)))
			if err != nil && TolerateRejects {
				Rejected = append(Rejected, i)
				ids = append(ids, RejectedID)
				continue
			}
			if err != nil {
				return "", nil, err
			}
			ids = append(ids, id)
		}
		scribble()
		if w == MemFile {
			return path, ids, iw.Flush()
		}
		db, err := bbolt.Open(path, 0o644, nil)
		if err != nil {
			return "", nil, err
		}
		if err := iw.WriteToBoltDatabase(db); err != nil {
			db.Close()
			return "", nil, err
		}
		return path, ids, db.Close()
	case Big:
		tmp := path + ".tmp"
		tdb, err := bbolt.Open(tmp, 0o600, nil)
		if err != nil {
			return "", nil, err
		}
		defer os.Remove(tmp)
		defer tdb.Close()
		db, err := bbolt.Open(path, 0o644, nil)
		if err != nil {
			return "", nil, err
		}
		bw, err := updog.NewBigIndexWriter(db, tdb)
		if err != nil {
			db.Close()
			return "", nil, err
		}
		// an abandoned writer keeps a transaction on the temp DB open; closing that DB would then wait forever
		abort := func() {
			if c, ok := any(bw).(interface{ Close() error }); ok {
				c.Close()
			} else {
				leakTx(bw)
			}
			db.Close()
		}
		for i := 0; i < n; i++ {
			id, err := bw.AddRow(reuse(row(i)))
			if err != nil && TolerateRejects {
				Rejected = append(Rejected, i)
				ids = append(ids, RejectedID)
				continue
			}
			if err != nil {
				abort()
				return "", nil, err
			}
			ids = append(ids, id)
		}
		scribble()
		if err := bw.Flush(); err != nil {
			abort()
			return "", nil, err
		}
		return path, ids, db.Close()
	}
	return "", nil, fmt.Errorf("bad writer")
}

// Abort releases whatever an abandoned writer still holds (the big writer's pending temp transaction), so that the
// databases can be closed without waiting forever.
func Abort(w any) {
	if c, ok := w.(interface{ Close() error }); ok {
		c.Close()
		return
	}
	if bw, ok := w.(*updog.BigIndexWriter); ok {
		leakTx(bw)
	}
}

// leakTx rolls back the writer's pending temp transaction through its private field when the writer has no Close
// method (older API); failing that the deferred Close of the temp DB is skipped by the caller's process exit.
func leakTx(bw *updog.BigIndexWriter) {
	defer func() { recover() }()
	f := reflect.ValueOf(bw).Elem().FieldByName("tempTx")
	if !f.IsValid() || f.IsNil() {
		return
	}
	tx := *(**bbolt.Tx)(unsafe.Pointer(f.UnsafeAddr()))
	tx.Rollback()
}

// Open opens an index file.
func Open(path string, preload bool, cache updog.Cache) (*updog.Index, error) {
	var opts []updog.IndexOption
	if preload {
		opts = append(opts, updog.WithPreloadedData())
	}
	if cache != nil {
		opts = append(opts, updog.WithCache(cache))
	}
	return updog.OpenIndex(path, opts...)
}

// Groups converts library groups to model groups.
func Groups(gs []updog.ResultGroup) []model.Group {
	if gs == nil {
		return nil
	}
	out := make([]model.Group, len(gs))
	for i, g := range gs {
		out[i].Count = g.Count
		for _, f := range g.Fields {
			out[i].Fields = append(out[i].Fields, model.Field{Column: f.Column, Value: f.Value})
		}
	}
	return out
}
