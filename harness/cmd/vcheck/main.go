// vcheck runs one property check: `vcheck run Cxx quick|thorough`, `vcheck replay <file>`,
// `vcheck worker <job json>` (internal).
package main

import (
	"encoding/json"
	"fmt"
	"os"
	"os/exec"
	"os/signal"
	"path/filepath"
	"runtime/debug"
	"sort"
	"strconv"
	"strings"
	"syscall"
	"time"

	"github.com/akrennmair/updog/zzverif/props"
	"github.com/akrennmair/updog/zzverif/rt"
	"github.com/akrennmair/updog/zzverif/vsched"
)

// panicOrigin looks at the stack of a recovered panic: the first frame below panic() that is not the Go runtime tells
// whether the panic was raised by the harness ("harness") or by updog / a library it called ("code under test").
func panicOrigin(stack string) string {
	lines := strings.Split(stack, "\n")
	seenPanic := false
	for _, l := range lines {
		if strings.HasPrefix(l, "\t") {
			continue // file:line
		}
		if strings.HasPrefix(l, "panic(") {
			seenPanic = true
			continue
		}
		if !seenPanic || l == "" || strings.HasPrefix(l, "runtime.") || strings.HasPrefix(l, "runtime/") {
			continue
		}
		if strings.Contains(l, "/zzverif/") || strings.HasPrefix(l, "main.") {
			return "harness"
		}
		return "code under test"
	}
	return "harness"
}

func main() {
	if len(os.Args) < 3 {
		fmt.Fprintln(os.Stderr, "usage: vcheck run Cxx quick|thorough | vcheck replay <file> | vcheck worker <job>")
		os.Exit(2)
	}
	defer func() {
		if r := recover(); r != nil {
			switch e := r.(type) {
			case rt.HarnessError:
				fmt.Fprintf(os.Stderr, "HARNESS ERROR: %s\n", e.Msg)
			case vsched.HarnessError:
				fmt.Fprintf(os.Stderr, "HARNESS ERROR: %s\n", e.Msg)
			default:
				st := string(debug.Stack())
				if os.Args[1] == "worker" && panicOrigin(st) == "code under test" {
					// an unrecovered panic raised inside updog (or a library it called) while a worker drove it: an
					// observation about the code, reported by the parent with the job as replay case
					fmt.Fprintf(os.Stderr, "panic: %v [raised in the code under test]\n%s\n", r, st)
					cleanup()
					os.Exit(3)
				}
				fmt.Fprintf(os.Stderr, "HARNESS ERROR (panic): %v\n%s\n", r, st)
			}
			cleanup()
			os.Exit(2)
		}
	}()
	switch os.Args[1] {
	case "run":
		os.Exit(run(os.Args[2], os.Args[3]))
	case "worker":
		worker(os.Args[2])
	case "replay":
		os.Exit(replay(os.Args[2], false))
	case "replay-quiet":
		os.Exit(replay(os.Args[2], true))
	default:
		fmt.Fprintln(os.Stderr, "unknown command")
		os.Exit(2)
	}
}

var scratchRoot string

func cleanup() {
	if scratchRoot != "" {
		os.RemoveAll(scratchRoot)
	}
}

func mkScratch(tag string) string {
	base := "/dev/shm"
	if fi, err := os.Stat(base); err != nil || !fi.IsDir() {
		base = filepath.Join(rt.VerifDir, "build", "scratch")
		os.MkdirAll(base, 0o755)
	}
	d, err := os.MkdirTemp(base, "verif-"+tag+"-")
	if err != nil {
		rt.Harnessf("scratch: %v", err)
	}
	scratchRoot = d
	c := make(chan os.Signal, 1)
	signal.Notify(c, syscall.SIGINT, syscall.SIGTERM)
	go func() { <-c; cleanup(); os.Exit(2) }()
	return d
}

func budget(tier string) time.Duration {
	if s := os.Getenv("VERIF_BUDGET_S"); s != "" {
		if n, err := strconv.Atoi(s); err == nil {
			return time.Duration(n) * time.Second
		}
	}
	if tier == "thorough" {
		return 20 * time.Minute
	}
	return 100 * time.Second
}

func seed() int {
	n, _ := strconv.Atoi(os.Getenv("VERIF_SEED"))
	return n
}

func run(id, tier string) int {
	p := props.Registry[id]
	if p == nil {
		fmt.Fprintf(os.Stderr, "unknown property %s\n", id)
		return 2
	}
	if tier != "quick" && tier != "thorough" {
		fmt.Fprintf(os.Stderr, "unknown tier %s\n", tier)
		return 2
	}
	t0 := time.Now()
	ctx := &rt.Ctx{Prop: id, Tier: tier, Seed: seed(), Scratch: mkScratch(id), Deadline: t0.Add(budget(tier)), Cov: rt.NewCoverage(), Level: p.Level}
	defer cleanup()
	vs := p.Run(ctx)
	// a stuck worker is tolerated only next to a violation that will be reported: a recorded known finding must not
	// excuse it (a hang of another kind hid behind the C17 known finding that way once)
	unknown := 0
	for _, v := range vs {
		isKnown := false
		for _, k := range rt.LoadKnown() {
			isKnown = isKnown || (!k.Fixed && k.Prop == id && k.Sig == v.Sig)
		}
		if !isKnown {
			unknown++
		}
	}
	if unknown == 0 && len(ctx.Stuck) > 0 {
		rt.Harnessf("%s", ctx.Stuck[0])
	}
	for _, st := range ctx.Stuck {
		ctx.Cov.Cap("a worker had to be stopped after the deadline: " + strings.SplitN(st, "\n", 2)[0])
	}

	// de-duplicate by signature
	seen := map[string]bool{}
	var uniq []*rt.Violation
	for _, v := range vs {
		v.Prop = id
		if !seen[v.Kind+"\x00"+v.Sig] {
			seen[v.Kind+"\x00"+v.Sig] = true
			uniq = append(uniq, v)
		}
	}
	sort.Slice(uniq, func(i, j int) bool {
		return len(uniq[i].Sig) < len(uniq[j].Sig) || (len(uniq[i].Sig) == len(uniq[j].Sig) && uniq[i].Sig < uniq[j].Sig)
	})

	known := rt.LoadKnown()
	var knownLines, violLines []string
	nviol := 0
	reported := 0
	for _, v := range uniq {
		isKnown := false
		for _, k := range known {
			if !k.Fixed && k.Prop == id && k.Sig == v.Sig {
				isKnown = true
				knownLines = append(knownLines, fmt.Sprintf("KNOWN-FINDING: property=%s %s (%s)", id, k.Text, rt.Shorten(v.Sig, 120)))
			}
		}
		if isKnown {
			continue
		}
		nviol++
		if reported >= 8 {
			continue // enough artefacts; the count is still reported
		}
		path := rt.WriteReplay(v)
		// re-execute the recorded case in fresh processes; the outcome is reported with the violation. A case that does
		// not reproduce in isolation (it depended on what ran before it in the same worker, or on scheduling inside
		// another process) is still a violation observed on the real code, so it is still reported.
		self, _ := os.Executable()
		repro := 0
		for i := 0; i < 3; i++ {
			cmd := exec.Command(self, "replay-quiet", path)
			cmd.Env = append(os.Environ(), "VCHECK_REPLAY_SCRATCH="+ctx.TempDir("replay"))
			err := cmd.Run()
			if ee, ok := err.(*exec.ExitError); ok && ee.ExitCode() == 1 {
				repro++
			}
		}
		note := fmt.Sprintf("replay reproduces %d/3", repro)
		if repro == 0 {
			note += " (NOT reproducible in isolation: the failure depends on the history of the run that found it; see detail)"
		}
		fmt.Printf("  %s\n", note)
		reported++
		violLines = append(violLines, fmt.Sprintf("VIOLATION property=%s replay=%s", id, path))
		fmt.Printf("violation: %s\n  sig: %s\n", v.Detail, rt.Shorten(v.Sig, 400))
	}

	// evidence
	cov := map[string]any{}
	for k, n := range ctx.Cov.Counts {
		cov[k] = n
	}
	for k, m := range ctx.Cov.Sets {
		cov["distinct_"+k] = len(m)
	}
	for k, v := range ctx.Cov.Notes {
		cov[k] = v
	}
	samples := ctx.Cov.Samples
	for _, v := range uniq {
		if len(samples) >= 16 {
			break
		}
		samples = append(samples, map[string]any{"violating_case": rt.Shorten(v.Sig, 300)})
	}
	if samples == nil {
		samples = []any{}
	}
	cov["samples"] = samples
	cov["exhaustive"] = ctx.Cov.Exhaustive
	if len(ctx.Cov.Incomplete) > 0 {
		cov["caps_hit"] = ctx.Cov.Incomplete
	}
	ev := &rt.Evidence{PropertyID: id, Tier: tier, Seed: ctx.Seed, Level: p.Level, Coverage: cov, Assumptions: ctx.Assume, WallS: time.Since(t0).Seconds(), Violations: nviol, KnownFindings: knownLines}
	if ev.Assumptions == nil {
		ev.Assumptions = []string{}
	}
	// vacuity guard
	vac := ""
	switch p.Level {
	case "model_checking":
		if n, _ := cov["states"].(int64); n < 1 {
			vac = "no states explored"
		}
		if n, _ := cov["transitions"].(int64); n < 1 {
			vac = "no transitions explored"
		}
	default:
		if n, _ := cov["evaluations"].(int64); n < 1 {
			vac = "no evaluations"
		}
		if n, _ := cov["distinct_nontrivial"].(int64); n < 2 {
			vac = "fewer than 2 distinct non-trivial cases"
		}
	}
	if len(ctx.Cov.Samples) == 0 {
		vac = "no samples recorded"
	}
	if vac != "" && nviol == 0 {
		rt.Harnessf("vacuous run: %s", vac)
	}
	rt.WriteEvidence(ev)
	for _, l := range knownLines {
		fmt.Println(l)
	}
	for _, l := range violLines {
		fmt.Println(l)
	}
	sum, _ := json.Marshal(ctx.Cov.Counts)
	fmt.Printf("%s %s: %d violation(s), %d known finding(s), exhaustive=%v, %.1fs, counts=%s\n", id, tier, nviol, len(knownLines), ctx.Cov.Exhaustive, time.Since(t0).Seconds(), sum)
	if nviol > 0 {
		return 1
	}
	return 0
}

func worker(jobJSON string) {
	if strings.HasPrefix(jobJSON, "@") { // a job too large for the command line comes in a file
		b, err := os.ReadFile(jobJSON[1:])
		if err != nil {
			rt.Harnessf("job file: %v", err)
		}
		jobJSON = string(b)
	}
	var job rt.Job
	if err := json.Unmarshal([]byte(jobJSON), &job); err != nil {
		rt.Harnessf("job: %v", err)
	}
	p := props.Registry[job.Prop]
	if p == nil || p.Worker == nil {
		rt.Harnessf("no worker for %s", job.Prop)
	}
	ctx := &rt.Ctx{Prop: job.Prop, Tier: job.Tier, Seed: seed(), Scratch: job.Scratch, Deadline: time.Unix(job.Deadline, 0), Cov: rt.NewCoverage(), Level: p.Level}
	vs := p.Worker(ctx, &job)
	rt.EmitWorkerResult(ctx.Cov, vs)
	os.Exit(0) // abandon whatever goroutines a violating execution left behind
}

func replay(path string, quiet bool) int {
	v := rt.ReadReplay(path)
	p := props.Registry[v.Prop]
	if p == nil || (p.Replay == nil && v.Kind != "worker-crash") {
		rt.Harnessf("no replayer for %s", v.Prop)
	}
	scratch := os.Getenv("VCHECK_REPLAY_SCRATCH")
	if scratch == "" {
		scratch = mkScratch("replay")
		defer cleanup()
	}
	ctx := &rt.Ctx{Prop: v.Prop, Tier: "quick", Seed: seed(), Scratch: scratch, Deadline: time.Now().Add(10 * time.Minute), Cov: rt.NewCoverage(), Level: p.Level}
	var got *rt.Violation
	if v.Kind == "worker-crash" {
		got = rt.ReplayCrash(ctx, v)
	} else {
		got = p.Replay(ctx, v)
	}
	if got == nil {
		if !quiet {
			fmt.Printf("replay of %s: property held (violation did not reproduce)\n", path)
		}
		cleanup()
		return 0
	}
	if got.Sig != v.Sig && !strings.HasPrefix(got.Sig, v.Sig) {
		fmt.Printf("replay of %s produced a different violation: %s\n", path, got.Sig)
	}
	if !quiet {
		fmt.Printf("replay of %s reproduces: %s\nVIOLATION property=%s replay=%s\n", path, got.Detail, v.Prop, path)
	}
	cleanup()
	return 1
}
