// Package ptk runs a command under ptrace and kills it (SIGKILL to its whole process group) immediately before its
// k-th system call that changes the content or the name space of files below the watched directories. It is the
// process-level crash-point enumerator: every k from 1 to the number of such calls of a complete run is one crash point,
// whatever library issued the call (bbolt's writes, a copy loop, a rename, a truncate ...).
//
// linux/amd64 only (system-call numbers and register names).
package ptk

import (
	"fmt"
	"os"
	"os/exec"
	"runtime"
	"strings"
	"syscall"
)

// Result of one traced run.
type Result struct {
	Mutations int      // file-changing system calls seen (up to and including the one that triggered the kill)
	Killed    bool     // the process group was killed before mutation number KillAt
	ExitCode  int      // exit code of the command if it was not killed (-1 if it died from a signal)
	Calls     []string // description of each counted call (name and target), for evidence and replay files
	Output    string   // combined stdout/stderr (through a file)
}

const (
	sysWrite         = 1
	sysOpen          = 2
	sysPwrite64      = 18
	sysWritev        = 20
	sysSendfile      = 40
	sysTruncate      = 76
	sysFtruncate     = 77
	sysRename        = 82
	sysCreat         = 85
	sysLink          = 86
	sysUnlink        = 87
	sysSymlink       = 88
	sysOpenat        = 257
	sysUnlinkat      = 263
	sysRenameat      = 264
	sysLinkat        = 265
	sysSymlinkat     = 266
	sysFallocate     = 285
	sysPwritev       = 296
	sysRenameat2     = 316
	sysCopyFileRange = 326
	sysPwritev2      = 328
)

var names = map[uint64]string{sysWrite: "write", sysOpen: "open", sysPwrite64: "pwrite64", sysWritev: "writev", sysSendfile: "sendfile", sysTruncate: "truncate",
	sysFtruncate: "ftruncate", sysRename: "rename", sysCreat: "creat", sysLink: "link", sysUnlink: "unlink", sysSymlink: "symlink", sysOpenat: "openat",
	sysUnlinkat: "unlinkat", sysRenameat: "renameat", sysLinkat: "linkat", sysSymlinkat: "symlinkat", sysFallocate: "fallocate", sysPwritev: "pwritev",
	sysRenameat2: "renameat2", sysCopyFileRange: "copy_file_range", sysPwritev2: "pwritev2"}

func readString(pid int, addr uintptr) string {
	var out []byte
	buf := make([]byte, 256)
	for len(out) < 4096 {
		n, err := syscall.PtracePeekData(pid, addr+uintptr(len(out)), buf)
		if err != nil || n == 0 {
			break
		}
		for i := 0; i < n; i++ {
			if buf[i] == 0 {
				return string(append(out, buf[:i]...))
			}
		}
		out = append(out, buf[:n]...)
	}
	return string(out)
}

func fdPath(pid int, fd uint64) string {
	p, err := os.Readlink(fmt.Sprintf("/proc/%d/fd/%d", pid, fd))
	if err != nil {
		return ""
	}
	return p
}

func watched(path string, dirs []string) bool {
	for _, d := range dirs {
		if strings.HasPrefix(path, d) {
			return true
		}
	}
	return false
}

// mutation classifies a system call at its entry stop; "" if it is not a counted file mutation.
func mutation(pid int, r *syscall.PtraceRegs, dirs []string) string {
	nr := r.Orig_rax
	name, ok := names[nr]
	if !ok {
		return ""
	}
	const oCREAT, oTRUNC = 0x40, 0x200
	switch nr {
	case sysWrite, sysPwrite64, sysWritev, sysPwritev, sysPwritev2, sysFtruncate, sysFallocate:
		if p := fdPath(pid, r.Rdi); watched(p, dirs) {
			return name + " " + p
		}
	case sysSendfile:
		if p := fdPath(pid, r.Rdi); watched(p, dirs) { // out_fd
			return name + " " + p
		}
	case sysCopyFileRange:
		if p := fdPath(pid, r.Rdx); watched(p, dirs) { // fd_out
			return name + " " + p
		}
	case sysOpen, sysCreat:
		p := readString(pid, uintptr(r.Rdi))
		if (nr == sysCreat || r.Rsi&(oCREAT|oTRUNC) != 0) && watched(p, dirs) {
			return name + " " + p
		}
	case sysOpenat:
		p := readString(pid, uintptr(r.Rsi))
		if r.Rdx&(oCREAT|oTRUNC) != 0 && watched(p, dirs) {
			return name + " " + p
		}
	case sysTruncate, sysUnlink:
		if p := readString(pid, uintptr(r.Rdi)); watched(p, dirs) {
			return name + " " + p
		}
	case sysUnlinkat:
		if p := readString(pid, uintptr(r.Rsi)); watched(p, dirs) {
			return name + " " + p
		}
	case sysRename, sysLink, sysSymlink:
		a, b := readString(pid, uintptr(r.Rdi)), readString(pid, uintptr(r.Rsi))
		if watched(a, dirs) || watched(b, dirs) {
			return name + " " + a + " -> " + b
		}
	case sysRenameat, sysRenameat2, sysLinkat:
		a, b := readString(pid, uintptr(r.Rsi)), readString(pid, uintptr(r.R10))
		if watched(a, dirs) || watched(b, dirs) {
			return name + " " + a + " -> " + b
		}
	case sysSymlinkat:
		a, b := readString(pid, uintptr(r.Rdi)), readString(pid, uintptr(r.Rdx))
		if watched(a, dirs) || watched(b, dirs) {
			return name + " " + a + " -> " + b
		}
	}
	return ""
}

// Options of a traced run.
type Options struct {
	// Signal is sent when the chosen point is reached: SIGKILL (default) goes to the whole process group and ends the run;
	// any other signal (SIGINT, SIGTERM) is delivered once to the main process, which then runs on (its handlers,
	// deferred clean-up) until it exits by itself.
	Signal syscall.Signal
	// CountReads makes read / pread64 of files below the watched directories points too (moments before anything has been
	// written: an interrupt that arrives while the input is still being read).
	CountReads bool
}

// RunOpt is Run with options.
func RunOpt(argv, env []string, dirs []string, killAt int, outFile string, opt Options) (Result, error) {
	curOpt = opt
	defer func() { curOpt = Options{} }()
	return Run(argv, env, dirs, killAt, outFile)
}

var curOpt Options

// Run executes argv under ptrace. killAt <= 0: never kill (count only). dirs: absolute directory prefixes whose files count.
func Run(argv, env []string, dirs []string, killAt int, outFile string) (res Result, err error) {
	runtime.LockOSThread()
	defer runtime.UnlockOSThread()
	of, err := os.Create(outFile)
	if err != nil {
		return res, err
	}
	defer func() {
		of.Close()
		b, _ := os.ReadFile(outFile)
		res.Output = string(b)
		os.Remove(outFile)
	}()
	cmd := exec.Command(argv[0], argv[1:]...)
	cmd.Env = env
	cmd.Stdout, cmd.Stderr = of, of
	cmd.SysProcAttr = &syscall.SysProcAttr{Ptrace: true, Setpgid: true, Pdeathsig: syscall.SIGKILL}
	if err := cmd.Start(); err != nil {
		return res, err
	}
	pid := cmd.Process.Pid
	var ws syscall.WaitStatus
	if _, err := syscall.Wait4(pid, &ws, 0, nil); err != nil {
		return res, fmt.Errorf("initial wait: %v", err)
	}
	const opts = syscall.PTRACE_O_TRACECLONE | syscall.PTRACE_O_TRACEFORK | syscall.PTRACE_O_TRACEVFORK | syscall.PTRACE_O_TRACESYSGOOD | 0x100000 /* EXITKILL */
	if err := syscall.PtraceSetOptions(pid, opts); err != nil {
		syscall.Kill(-pid, syscall.SIGKILL)
		return res, fmt.Errorf("setoptions: %v", err)
	}
	syscall.PtraceSyscall(pid, 0)
	live := map[int]bool{pid: true}
	res.ExitCode = -1
	kill := func() {
		res.Killed = true
		if curOpt.Signal != 0 && curOpt.Signal != syscall.SIGKILL {
			syscall.Kill(pid, curOpt.Signal)
			return
		}
		syscall.Kill(-pid, syscall.SIGKILL)
		syscall.Kill(pid, syscall.SIGKILL)
	}
	for len(live) > 0 {
		wpid, werr := syscall.Wait4(-1, &ws, syscall.WALL, nil)
		if werr != nil {
			if werr == syscall.EINTR {
				continue
			}
			break // ECHILD: everything is gone
		}
		switch {
		case ws.Exited():
			if wpid == pid {
				res.ExitCode = ws.ExitStatus()
			}
			delete(live, wpid)
		case ws.Signaled():
			delete(live, wpid)
		case ws.Stopped():
			live[wpid] = true
			sig := ws.StopSignal()
			switch {
			case sig == syscall.SIGTRAP|0x80:
				var regs syscall.PtraceRegs
				if res.Killed {
					syscall.PtraceSyscall(wpid, 0)
					continue
				}
				if curOpt.CountReads {
					var rr syscall.PtraceRegs
					if err := syscall.PtraceGetRegs(wpid, &rr); err == nil && int64(rr.Rax) == -38 && (rr.Orig_rax == 0 || rr.Orig_rax == 17) {
						if p := fdPath(wpid, rr.Rdi); watched(p, dirs) {
							res.Mutations++
							res.Calls = append(res.Calls, "read "+p)
							if res.Mutations == killAt {
								kill()
							}
							syscall.PtraceSyscall(wpid, 0)
							continue
						}
					}
				}
				if err := syscall.PtraceGetRegs(wpid, &regs); err == nil && int64(regs.Rax) == -38 { // -ENOSYS: entry stop
					if m := mutation(wpid, &regs, dirs); m != "" {
						res.Mutations++
						res.Calls = append(res.Calls, m)
						if res.Mutations == killAt {
							kill()
						}
					}
				}
				syscall.PtraceSyscall(wpid, 0)
			case sig == syscall.SIGTRAP:
				// ptrace event (clone, fork, exec): continue without delivering anything
				syscall.PtraceSyscall(wpid, 0)
			case sig == syscall.SIGSTOP:
				// initial stop of a new thread / process
				syscall.PtraceSyscall(wpid, 0)
			default:
				syscall.PtraceSyscall(wpid, int(sig)) // deliver the signal (the Go runtime uses SIGURG for preemption)
			}
		}
	}
	cmd.Wait()
	return res, nil
}
