// Package flk makes bbolt's file lock visible: it installs the hooks that /verif/tools/prep adds to
// bbolt (lock obtained / released / about to wait) and offers a non-blocking probe of a file's lock.
package flk

import (
	"fmt"
	"os"
	"sync"
	"syscall"
	"time"

	"github.com/akrennmair/updog/zzverif/vsched"
	"github.com/akrennmair/updog/zzverif/vsync"
	"go.etcd.io/bbolt"
)

// WouldBlock is the panic value raised when, in sequential mode, bbolt is about to wait for a file lock:
// nobody else runs, so the wait would last forever.
type WouldBlock struct{ Path string }

func (w WouldBlock) Error() string {
	return fmt.Sprintf("open of %s would block forever on the file lock (held by another handle of this process)", w.Path)
}

var (
	mu sync.Mutex
	// held counts the locks per FILE (device:inode), not per path: the same file may be opened under several spellings
	// of its path, through symbolic links or hard links. byPath remembers under which identity a path was locked (the
	// file may be renamed or removed before it is unlocked).
	held   = map[string]int{}
	byPath = map[string][]string{}
	// PanicOnWait: in sequential harnesses a lock wait is a definite hang; raise WouldBlock instead of sleeping.
	PanicOnWait bool
)

// Sequential switches every "would block forever" detector on or off: the file lock (PanicOnWait), updog's own
// mutexes (vsync.Sequential) and bbolt's internal locks.
func Sequential(on bool) {
	PanicOnWait = on
	vsync.Sequential = on
	seq = on
}

var seq bool

func init() {
	bbolt.VerifFlocked = func(path string) {
		id := fileID(path)
		mu.Lock()
		held[id]++
		byPath[path] = append(byPath[path], id)
		mu.Unlock()
	}
	bbolt.VerifFunlocked = func(path string) {
		mu.Lock()
		if ids := byPath[path]; len(ids) > 0 {
			id := ids[len(ids)-1]
			byPath[path] = ids[:len(ids)-1]
			if held[id] > 0 {
				held[id]--
			}
		}
		mu.Unlock()
	}
	bbolt.VerifFlockWait = func(path string) {
		if vsched.FlockWait(path) {
			return // a managed thread: the scheduler decided the lock is free now
		}
		if PanicOnWait {
			// sequential harness: wait while somebody else could still release the lock; if nobody can, it is a hang
			func() {
				defer func() {
					if r := recover(); r != nil {
						panic(WouldBlock{path})
					}
				}()
				vsync.SeqAcquire(func() bool { mu.Lock(); defer mu.Unlock(); return held[fileID(path)] == 0 }, "flock")
			}()
			return
		}
		time.Sleep(50 * time.Millisecond)
	}
	bbolt.VerifSequential = func() bool { return seq }
	bbolt.VerifSeqAcquire = vsync.SeqAcquire
	bbolt.VerifPoint = func(kind uint8, obj uintptr, arg int) bool { return vsched.Point(vsched.Kind(kind), obj, arg) }
	vsched.FlockHeld = func(path string) bool {
		mu.Lock()
		defer mu.Unlock()
		return held[fileID(path)] > 0
	}
}

// fileID names the file a path leads to at the moment.
func fileID(path string) string {
	fi, err := os.Stat(path)
	if err != nil {
		return "path:" + path
	}
	if st, ok := fi.Sys().(*syscall.Stat_t); ok {
		return fmt.Sprintf("%d:%d", st.Dev, st.Ino)
	}
	return "path:" + path
}

// Free reports whether an exclusive lock on path can be taken right now (and releases it again).
// A missing file counts as free.
func Free(path string) bool {
	f, err := os.OpenFile(path, os.O_RDWR, 0)
	if err != nil {
		return os.IsNotExist(err)
	}
	defer f.Close()
	if err := syscall.Flock(int(f.Fd()), syscall.LOCK_EX|syscall.LOCK_NB); err != nil {
		return false
	}
	syscall.Flock(int(f.Fd()), syscall.LOCK_UN)
	return true
}
