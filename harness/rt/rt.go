// Package rt is the small runtime shared by all property drivers: evidence files, violation
// reports with replay artefacts, the known-findings list, and fan-out over worker processes.
package rt

import (
	"bufio"
	"bytes"
	"context"
	"crypto/sha256"
	"encoding/hex"
	"encoding/json"
	"fmt"
	"os"
	"os/exec"
	"path/filepath"
	"runtime"
	"sort"
	"strconv"
	"strings"
	"sync"
	"syscall"
	"time"
)

// VerifDir is /verif (or wherever the check script lives).
var VerifDir = envOr("VERIF_DIR", "/verif")

func envOr(k, d string) string {
	if v := os.Getenv(k); v != "" {
		return v
	}
	return d
}

// Ctx is handed to a property driver.
type Ctx struct {
	Prop     string
	Tier     string // quick | thorough
	Seed     int
	Scratch  string // private scratch directory (tmpfs), removed by the parent on exit
	Deadline time.Time
	Cov      *Coverage
	Assume   []string
	Level    string
	// Stuck: workers that had to be stopped long after the deadline. If the run found violations they are reported (the
	// stuck worker is most likely another face of the same defect); if it found none, the run is a harness error.
	Stuck   []string
	stuckMu sync.Mutex
}

func (c *Ctx) Thorough() bool { return c.Tier == "thorough" }
func (c *Ctx) Expired() bool  { return time.Now().After(c.Deadline) }
func (c *Ctx) Assumef(f string, a ...any) {
	s := fmt.Sprintf(f, a...)
	for _, x := range c.Assume {
		if x == s {
			return
		}
	}
	c.Assume = append(c.Assume, s)
}

// TempDir creates a fresh sub-directory of the scratch directory.
func (c *Ctx) TempDir(name string) string {
	d, err := os.MkdirTemp(c.Scratch, name+".")
	if err != nil {
		Harnessf("scratch: %v", err)
	}
	return d
}

// Coverage accumulates what a run covered. Counts are summed over shards, Sets are unions.
type Coverage struct {
	mu         sync.Mutex
	Counts     map[string]int64           `json:"counts"`
	Sets       map[string]map[string]bool `json:"-"`
	SetList    map[string][]string        `json:"sets,omitempty"`
	Samples    []any                      `json:"samples"`
	Notes      map[string]any             `json:"notes,omitempty"`
	Exhaustive bool                       `json:"exhaustive"`
	Incomplete []string                   `json:"incomplete,omitempty"` // caps / deadlines that were hit
}

func NewCoverage() *Coverage {
	return &Coverage{Counts: map[string]int64{}, Sets: map[string]map[string]bool{}, Notes: map[string]any{}, Exhaustive: true}
}

func (c *Coverage) Add(k string, n int64) { c.mu.Lock(); c.Counts[k] += n; c.mu.Unlock() }
func (c *Coverage) Max(k string, n int64) {
	c.mu.Lock()
	if n > c.Counts[k] {
		c.Counts[k] = n
	}
	c.mu.Unlock()
}
func (c *Coverage) Get(k string) int64 { c.mu.Lock(); defer c.mu.Unlock(); return c.Counts[k] }
func (c *Coverage) SetAdd(k, v string) {
	c.mu.Lock()
	m := c.Sets[k]
	if m == nil {
		m = map[string]bool{}
		c.Sets[k] = m
	}
	if len(m) < 100000 {
		m[v] = true
	}
	c.mu.Unlock()
}
func (c *Coverage) SetLen(k string) int { c.mu.Lock(); defer c.mu.Unlock(); return len(c.Sets[k]) }
func (c *Coverage) Sample(max int, v any) {
	c.mu.Lock()
	if len(c.Samples) < max {
		c.Samples = append(c.Samples, v)
	}
	c.mu.Unlock()
}
func (c *Coverage) Note(k string, v any) { c.mu.Lock(); c.Notes[k] = v; c.mu.Unlock() }
func (c *Coverage) Cap(what string) {
	c.mu.Lock()
	c.Exhaustive = false
	for _, x := range c.Incomplete {
		if x == what {
			c.mu.Unlock()
			return
		}
	}
	c.Incomplete = append(c.Incomplete, what)
	c.mu.Unlock()
}

// Merge adds a worker's coverage.
func (c *Coverage) Merge(o *Coverage) {
	for k, v := range o.Counts {
		if strings.HasPrefix(k, "max_") {
			c.Max(k, v)
		} else {
			c.Add(k, v)
		}
	}
	for k, l := range o.SetList {
		for _, v := range l {
			c.SetAdd(k, v)
		}
	}
	c.mu.Lock()
	for _, s := range o.Samples {
		if len(c.Samples) < 12 {
			c.Samples = append(c.Samples, s)
		}
	}
	for k, v := range o.Notes {
		if _, ok := c.Notes[k]; !ok {
			c.Notes[k] = v
		}
	}
	if !o.Exhaustive {
		c.Exhaustive = false
	}
	for _, x := range o.Incomplete {
		dup := false
		for _, y := range c.Incomplete {
			dup = dup || x == y
		}
		if !dup {
			c.Incomplete = append(c.Incomplete, x)
		}
	}
	c.mu.Unlock()
}

func (c *Coverage) export() {
	c.SetList = map[string][]string{}
	for k, m := range c.Sets {
		for v := range m {
			c.SetList[k] = append(c.SetList[k], v)
		}
		sort.Strings(c.SetList[k])
	}
}

// Violation is one counterexample. Sig identifies it (minimal input / history / schedule) and is what the
// known-findings file refers to; Case is what Replay needs to re-execute it without the explorer.
type Violation struct {
	Prop   string          `json:"property"`
	Sig    string          `json:"sig"`
	Kind   string          `json:"kind"` // which replayer of the property understands Case
	Case   json.RawMessage `json:"case"`
	Detail string          `json:"detail"`
}

func NewViolation(prop, kind, sig string, c any, detailf string, a ...any) *Violation {
	b, err := json.Marshal(c)
	if err != nil {
		Harnessf("marshal case: %v", err)
	}
	return &Violation{Prop: prop, Sig: sig, Kind: kind, Case: b, Detail: fmt.Sprintf(detailf, a...)}
}

// WorkerResult is what a worker process prints as its last stdout line.
type WorkerResult struct {
	Cov        *Coverage    `json:"cov"`
	Violations []*Violation `json:"violations"`
}

type HarnessError struct{ Msg string }

func (e HarnessError) Error() string { return e.Msg }
func Harnessf(f string, a ...any)    { panic(HarnessError{fmt.Sprintf(f, a...)}) }

// Job describes a unit of work for a worker process.
type Job struct {
	Prop     string          `json:"prop"`
	Tier     string          `json:"tier"`
	Name     string          `json:"name"`
	Shard    int             `json:"shard"`
	NShards  int             `json:"nshards"`
	Args     json.RawMessage `json:"args,omitempty"`
	Scratch  string          `json:"scratch"`
	Deadline int64           `json:"deadline_unix"`
}

func (j *Job) Decode(v any) {
	if len(j.Args) == 0 {
		return
	}
	if err := json.Unmarshal(j.Args, v); err != nil {
		Harnessf("job args: %v", err)
	}
}

// Spawn options for RunJobs.
type SpawnOpt struct {
	Race      bool // use the -race binary, GOMAXPROCS=1 and a race log
	Procs     int  // max concurrent processes (0 = NumCPU)
	Env       []string
	MaxProcs1 bool // GOMAXPROCS=1 without race
}

// JobOutcome is the result of one worker process.
type JobOutcome struct {
	Opt      SpawnOpt
	TimedOut bool
	Job      Job
	Res      *WorkerResult
	Err      string // non-empty: the worker died without a result
	Stderr   string
	RaceLog  string
}

// workerGrace is how long after the run's deadline a worker is given to wind down on its own.
const workerGrace = 90 * time.Second

// RunJobs runs each job in its own worker process (this binary or the -race twin), at most Procs at a time.
func RunJobs(ctx *Ctx, jobs []Job, opt SpawnOpt) []JobOutcome {
	bin, err := os.Executable()
	if err != nil {
		Harnessf("%v", err)
	}
	if opt.Race {
		bin = os.Getenv("VCHECK_RACE_BIN")
		if bin == "" {
			Harnessf("VCHECK_RACE_BIN not set")
		}
	}
	n := opt.Procs
	if n <= 0 {
		n = runtime.NumCPU()
	}
	out := make([]JobOutcome, len(jobs))
	sem := make(chan struct{}, n)
	var wg sync.WaitGroup
	for i := range jobs {
		wg.Add(1)
		sem <- struct{}{}
		go func(i int) {
			defer wg.Done()
			defer func() { <-sem }()
			j := jobs[i]
			j.Prop, j.Tier = ctx.Prop, ctx.Tier
			j.Scratch = ctx.TempDir("w")
			j.Deadline = ctx.Deadline.Unix()
			jb, _ := json.Marshal(j)
			// a worker never outlives its parent, and is killed if it overruns the run's deadline by far
			kctx, cancel := context.WithDeadline(context.Background(), ctx.Deadline.Add(workerGrace))
			defer cancel()
			jobArg := string(jb)
			if len(jobArg) > 60000 { // a single argument is limited to 128 KiB by the kernel
				jf := filepath.Join(j.Scratch, "job.json")
				if err := os.WriteFile(jf, jb, 0o644); err != nil {
					Harnessf("job file: %v", err)
				}
				jobArg = "@" + jf
			}
			cmd := exec.CommandContext(kctx, bin, "worker", jobArg)
			cmd.SysProcAttr = &syscall.SysProcAttr{Pdeathsig: syscall.SIGKILL}
			cmd.Env = append(os.Environ(), opt.Env...)
			raceLog := ""
			if opt.Race {
				raceLog = filepath.Join(j.Scratch, "race")
				cmd.Env = append(cmd.Env, "GOMAXPROCS=1", "GODEBUG=asyncpreemptoff=1", "GORACE=log_path="+raceLog+" exitcode=0 halt_on_error=0 history_size=2", "VCHECK_RACE_LOG="+raceLog)
			} else if opt.MaxProcs1 {
				cmd.Env = append(cmd.Env, "GOMAXPROCS=1")
			}
			var so, se bytes.Buffer
			cmd.Stdout, cmd.Stderr = &so, &se
			t0 := time.Now()
			err := cmd.Run()
			if os.Getenv("VERIF_JOBTIMES") != "" {
				fmt.Fprintf(os.Stderr, "jobtime %s/%d %s %.1fs\n", j.Name, j.Shard, string(j.Args), time.Since(t0).Seconds())
			}
			o := JobOutcome{Job: j, Opt: opt, Stderr: headTail(se.String(), 3000)}
			if opt.Race {
				if m, _ := filepath.Glob(raceLog + ".*"); len(m) > 0 {
					b, _ := os.ReadFile(m[0])
					o.RaceLog = tail(string(b), 8000)
				}
			}
			// last non-empty stdout line is the result
			lines := strings.Split(strings.TrimRight(so.String(), "\n"), "\n")
			var wr WorkerResult
			if len(lines) > 0 && json.Unmarshal([]byte(lines[len(lines)-1]), &wr) == nil && wr.Cov != nil {
				o.Res = &wr
			} else if kctx.Err() != nil {
				o.TimedOut = true
				o.Err = fmt.Sprintf("worker %s/%d was stopped %v after the deadline without a result", j.Name, j.Shard, workerGrace)
			} else {
				o.Err = fmt.Sprintf("worker %s/%d died without result: %v", j.Name, j.Shard, err)
				if _, exited := err.(*exec.ExitError); !exited && err != nil {
					// the process never ran (fork/exec failed): a problem of the machinery, not of the code under test
					o.Stderr = "HARNESS ERROR: cannot start worker: " + err.Error() + "\n" + o.Stderr
				}
			}
			out[i] = o
			os.RemoveAll(j.Scratch)
		}(i)
	}
	wg.Wait()
	return out
}

func headTail(s string, n int) string {
	if len(s) > 2*n {
		return s[:n] + "\n...\n" + s[len(s)-n:]
	}
	return s
}

func tail(s string, n int) string {
	if len(s) > n {
		return "..." + s[len(s)-n:]
	}
	return s
}

// Collect merges worker outcomes into the context; workers that died are harness errors unless
// onDeath turns the death into a violation.
func Collect(ctx *Ctx, outs []JobOutcome, onDeath func(o JobOutcome) *Violation) []*Violation {
	var vs []*Violation
	for _, o := range outs {
		if o.Res == nil && o.TimedOut {
			// a worker winds down on its own at the deadline; one that had to be stopped long after it was blocked
			if onDeath != nil {
				if v := onDeath(o); v != nil {
					vs = append(vs, v)
					continue
				}
			}
			ctx.stuckMu.Lock()
			ctx.Stuck = append(ctx.Stuck, fmt.Sprintf("%s (a worker that does not wind down at the deadline is blocked: not counted as 'held')\nstderr: %s", o.Err, o.Stderr))
			ctx.stuckMu.Unlock()
			continue
		}
		if o.Res == nil {
			if onDeath != nil {
				if v := onDeath(o); v != nil {
					vs = append(vs, v)
					continue
				}
			}
			if IsHarnessFailure(o.Stderr) {
				Harnessf("%s\nstderr: %s", o.Err, o.Stderr)
			}
			// SIGKILL from outside (the kernel's out-of-memory killer, an operator): says nothing about the code under test
			if strings.Contains(o.Err, "signal: killed") && crashLine(o.Stderr) == "process died without a Go panic message" {
				Harnessf("%s: the worker was killed from outside (SIGKILL; out of memory?)\nstderr: %s", o.Err, o.Stderr)
			}
			// the worker process was killed by the code under test (fatal runtime error, unrecovered panic in another
			// goroutine, os.Exit ...): that is an observation about the code, reported with the job as its replay case
			vs = append(vs, CrashViolation(ctx.Prop, o))
			continue
		}
		ctx.Cov.Merge(o.Res.Cov)
		vs = append(vs, o.Res.Violations...)
	}
	return vs
}

// IsHarnessFailure: did the worker stop because of a problem of the machinery itself?
func IsHarnessFailure(stderr string) bool { return strings.Contains(stderr, "HARNESS ERROR") }

// CrashCase is the replay case of a worker crash: the job itself.
type CrashCase struct {
	Job  Job      `json:"job"`
	Opt  SpawnOpt `json:"opt"`
	Died string   `json:"died"`
}

func crashLine(stderr string) string {
	for _, l := range strings.Split(stderr, "\n") {
		if strings.HasPrefix(l, "fatal error:") || strings.HasPrefix(l, "panic:") || strings.Contains(l, "SIGSEGV") || strings.Contains(l, "SIGBUS") {
			return strings.TrimSpace(l)
		}
	}
	return "process died without a Go panic message"
}

func CrashViolation(prop string, o JobOutcome) *Violation {
	line := crashLine(o.Stderr)
	c := CrashCase{Job: o.Job, Opt: o.Opt, Died: line}
	c.Job.Scratch = ""
	sig := fmt.Sprintf("worker-crash job=%s shard=%d/%d args=%s: %s", o.Job.Name, o.Job.Shard, o.Job.NShards, string(o.Job.Args), line)
	return NewViolation(prop, "worker-crash", sig, c, "the process running the code under test died: %s (the whole job is the replay case)", line)
}

// ReplayCrash re-runs the job of a worker-crash violation; it reproduces when the worker dies again.
func ReplayCrash(ctx *Ctx, v *Violation) *Violation {
	var c CrashCase
	if err := json.Unmarshal(v.Case, &c); err != nil {
		Harnessf("case: %v", err)
	}
	outs := RunJobs(ctx, []Job{c.Job}, c.Opt)
	if outs[0].Res == nil && !outs[0].TimedOut && !IsHarnessFailure(outs[0].Stderr) {
		return CrashViolation(v.Prop, outs[0])
	}
	if outs[0].Res != nil && len(outs[0].Res.Violations) > 0 {
		return outs[0].Res.Violations[0]
	}
	return nil
}

// EmitWorkerResult prints the worker's result line.
func EmitWorkerResult(cov *Coverage, vs []*Violation) {
	cov.export()
	w := bufio.NewWriter(os.Stdout)
	b, err := json.Marshal(WorkerResult{Cov: cov, Violations: vs})
	if err != nil {
		Harnessf("marshal result: %v", err)
	}
	w.WriteString("\n")
	w.Write(b)
	w.WriteString("\n")
	w.Flush()
}

// ---------------------------------------------------------------------------------
// known findings

type Known struct {
	Fixed bool
	Prop  string
	Sig   string
	Text  string
}

// LoadKnown parses /verif/known_findings.txt. Lines:
//
//	known: property=Cxx sig=<signature up to the first " :: "> :: text
//	fixed: property=Cxx <commit> text
func LoadKnown() []Known {
	b, err := os.ReadFile(filepath.Join(VerifDir, "known_findings.txt"))
	if err != nil {
		return nil
	}
	var ks []Known
	for _, l := range strings.Split(string(b), "\n") {
		l = strings.TrimSpace(l)
		switch {
		case strings.HasPrefix(l, "known: property="):
			rest := strings.TrimPrefix(l, "known: property=")
			sp := strings.IndexByte(rest, ' ')
			if sp < 0 {
				continue
			}
			k := Known{Prop: rest[:sp]}
			rest = strings.TrimSpace(rest[sp+1:])
			if !strings.HasPrefix(rest, "sig=") {
				continue
			}
			rest = strings.TrimPrefix(rest, "sig=")
			if i := strings.Index(rest, " :: "); i >= 0 {
				k.Sig, k.Text = rest[:i], rest[i+4:]
			} else {
				k.Sig = rest
			}
			ks = append(ks, k)
		case strings.HasPrefix(l, "fixed: property="):
			rest := strings.TrimPrefix(l, "fixed: property=")
			sp := strings.IndexByte(rest, ' ')
			if sp < 0 {
				continue
			}
			ks = append(ks, Known{Fixed: true, Prop: rest[:sp], Text: rest[sp+1:]})
		}
	}
	return ks
}

// ---------------------------------------------------------------------------------
// evidence

type Evidence struct {
	PropertyID    string         `json:"property_id"`
	Tier          string         `json:"tier"`
	Seed          int            `json:"seed"`
	Level         string         `json:"level"`
	Coverage      map[string]any `json:"coverage"`
	Assumptions   []string       `json:"assumptions"`
	WallS         float64        `json:"wall_s"`
	Violations    int            `json:"violations"`
	KnownFindings []string       `json:"known_findings,omitempty"`
}

// WriteEvidence writes /verif/evidence/<id>.json atomically.
func WriteEvidence(ev *Evidence) {
	dir := filepath.Join(VerifDir, "evidence")
	if d := os.Getenv("VERIF_EVIDENCE_DIR"); d != "" {
		dir = d // runs against scratch copies (self-tests on seeded changes) must not overwrite the real evidence
	}
	os.MkdirAll(dir, 0o755)
	b, _ := json.MarshalIndent(ev, "", " ")
	tmp := filepath.Join(dir, ev.PropertyID+".json.tmp")
	if err := os.WriteFile(tmp, append(b, '\n'), 0o644); err != nil {
		Harnessf("evidence: %v", err)
	}
	if err := os.Rename(tmp, filepath.Join(dir, ev.PropertyID+".json")); err != nil {
		Harnessf("evidence: %v", err)
	}
}

// ReplayPath is where the artefact of a violation goes.
func ReplayPath(v *Violation) string {
	h := sha256.Sum256([]byte(v.Kind + "\x00" + v.Sig))
	return filepath.Join(VerifDir, "replays", v.Prop, hex.EncodeToString(h[:8])+".json")
}

func WriteReplay(v *Violation) string {
	p := ReplayPath(v)
	os.MkdirAll(filepath.Dir(p), 0o755)
	b, _ := json.MarshalIndent(v, "", " ")
	if err := os.WriteFile(p, append(b, '\n'), 0o644); err != nil {
		Harnessf("replay: %v", err)
	}
	return p
}

func ReadReplay(p string) *Violation {
	b, err := os.ReadFile(p)
	if err != nil {
		Harnessf("replay: %v", err)
	}
	var v Violation
	if err := json.Unmarshal(b, &v); err != nil {
		Harnessf("replay: %v", err)
	}
	return &v
}

func Itoa(i int) string { return strconv.Itoa(i) }

// Shorten makes long signatures readable in one line.
func Shorten(s string, n int) string {
	if len(s) <= n {
		return s
	}
	h := sha256.Sum256([]byte(s))
	return s[:n] + "…#" + hex.EncodeToString(h[:4])
}
