package rt

import (
	"container/list"
	"fmt"
	"reflect"
	"sort"
	"strings"
	"unsafe"
)

// DeepDump renders every field (exported or not) of a value, following pointers up to depth levels, so that state
// keys built from it automatically include fields that did not exist when the harness was written. Locks, functions and
// channels are skipped; maps are sorted; container/list lists are walked; a few heavy types are summarised.
func DeepDump(v any, depth int) string {
	var b strings.Builder
	deepDump(reflect.ValueOf(v), depth, map[uintptr]bool{}, &b)
	return b.String()
}

func deepDump(v reflect.Value, depth int, seen map[uintptr]bool, b *strings.Builder) {
	if !v.IsValid() {
		b.WriteString("nil")
		return
	}
	switch v.Kind() {
	case reflect.Ptr:
		if v.IsNil() {
			b.WriteString("nil")
			return
		}
		tn := v.Type().String()
		switch {
		case strings.Contains(tn, "updog.Index"):
			b.WriteString("*Index")
			return
		case strings.Contains(tn, "bbolt.DB"), strings.Contains(tn, "grpc."), strings.Contains(tn, "roaring.Bitmap"):
			b.WriteString("*" + tn)
			return
		}
		if depth <= 0 {
			b.WriteString("ptr")
			return
		}
		p := v.Pointer()
		if seen[p] {
			b.WriteString("cycle")
			return
		}
		seen[p] = true
		b.WriteString("&")
		deepDump(v.Elem(), depth-1, seen, b)
		delete(seen, p)
	case reflect.Interface:
		if v.IsNil() {
			b.WriteString("nil")
			return
		}
		deepDump(v.Elem(), depth, seen, b)
	case reflect.Struct:
		tn := v.Type().String()
		switch {
		case strings.HasSuffix(tn, "sync.Mutex"), strings.HasSuffix(tn, "sync.RWMutex"), strings.HasSuffix(tn, "sync.WaitGroup"), strings.HasSuffix(tn, "sync.Once"), strings.HasSuffix(tn, ".noCopy"):
			b.WriteString("-")
			return
		case tn == "list.List":
			if v.CanAddr() {
				l := (*list.List)(unsafe.Pointer(v.UnsafeAddr()))
				b.WriteString("list[")
				for e := l.Front(); e != nil; e = e.Next() {
					deepDump(reflect.ValueOf(e.Value), depth, seen, b)
					b.WriteString(",")
				}
				b.WriteString("]")
				return
			}
		}
		b.WriteString("{")
		for i := 0; i < v.NumField(); i++ {
			f := v.Type().Field(i)
			b.WriteString(f.Name + ":")
			deepDump(v.Field(i), depth, seen, b)
			b.WriteString(" ")
		}
		b.WriteString("}")
	case reflect.Map:
		if v.IsNil() {
			b.WriteString("nilmap")
			return
		}
		var ents []string
		it := v.MapRange()
		for it.Next() {
			var e strings.Builder
			deepDump(it.Key(), depth, seen, &e)
			e.WriteString("=>")
			deepDump(it.Value(), depth, seen, &e)
			ents = append(ents, e.String())
		}
		sort.Strings(ents)
		b.WriteString("map[" + strings.Join(ents, "; ") + "]")
	case reflect.Slice, reflect.Array:
		if v.Kind() == reflect.Slice && v.IsNil() {
			b.WriteString("nilslice")
			return
		}
		b.WriteString("[")
		for i := 0; i < v.Len() && i < 64; i++ {
			deepDump(v.Index(i), depth, seen, b)
			b.WriteString(",")
		}
		fmt.Fprintf(b, "]len=%d", v.Len())
	case reflect.Func, reflect.Chan, reflect.UnsafePointer:
		b.WriteString("-")
	case reflect.String:
		fmt.Fprintf(b, "%q", v.String())
	case reflect.Bool:
		fmt.Fprintf(b, "%v", v.Bool())
	case reflect.Int, reflect.Int8, reflect.Int16, reflect.Int32, reflect.Int64:
		fmt.Fprintf(b, "%d", v.Int())
	case reflect.Uint, reflect.Uint8, reflect.Uint16, reflect.Uint32, reflect.Uint64, reflect.Uintptr:
		fmt.Fprintf(b, "%d", v.Uint())
	case reflect.Float32, reflect.Float64:
		fmt.Fprintf(b, "%g", v.Float())
	default:
		b.WriteString("?")
	}
}
