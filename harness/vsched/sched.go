// Package vsched is a controlled cooperative scheduler for real goroutines with
// stateless, preemption-bounded depth-first exploration of their interleavings.
//
// Exactly one goroutine "holds the turn". Managed threads reach the scheduler through
// the shims in zzverif/vsync and zzverif/vatomic, which call Point before every
// synchronisation operation. The turn is handed over in //go:norace functions that spin
// on a plain word with runtime.Gosched() (GOMAXPROCS must be 1), so the Go race detector
// sees no happens-before edge from the scheduler itself: only the program's own
// primitives, goroutine creation and the final join order the threads. A data race is
// therefore still reported in every explored (fully serialised) schedule.
package vsched

import (
	"fmt"
	"runtime"
	"runtime/debug"
	"strings"
)

type Kind uint8

const (
	OpStart Kind = iota
	OpExit
	OpLock      // Mutex.Lock / RWMutex.Lock phase 2 (acquire)
	OpUnlock    // no choice point
	OpWLockReq  // RWMutex.Lock phase 1 (announce: later readers wait)
	OpWUnlock   // no choice point
	OpRLock     //
	OpRUnlock   // no choice point
	OpTryLock   // never blocks; result decided by shadow
	OpTryRLock  //
	OpWgAdd     // no choice point (obj, arg=delta)
	OpWgWait    //
	OpAtomic    // any atomic op: always enabled, choice point
	OpSpawn     // no choice point
	OpFlockWait // wait until file lock on Path is free
	OpYield     // harness-level explicit choice point
	OpExt       // about to perform a real operation that may block (channel send / receive): choice point
	OpExtResume // the blocking operation returned after the turn had been taken away: waits for a turn
)

var kindNames = [...]string{"start", "exit", "lock", "unlock", "wlockreq", "wunlock", "rlock", "runlock", "trylock", "tryrlock", "wgadd", "wgwait", "atomic", "spawn", "flockwait", "yield", "chanop", "chanresume"}

func (k Kind) String() string { return kindNames[k] }

// Op is what a thread is about to do.
type Op struct {
	Kind Kind
	Obj  uintptr
	Arg  int
	Path string
	nt   *Thread
}

// Thread is one managed goroutine.
type Thread struct {
	id       int
	goid     int64
	pending  Op
	finished bool
	tryOK    bool // result of a try-lock, written by the explorer before the grant
	ext      int  // 0: not in a blocking operation; 1: inside one (possibly parked in the runtime); 2: returned, waiting for a turn
	revoked  bool // the explorer took the turn away while the thread was parked inside a blocking operation
	body     func()
	panicVal any
	panicStk string
}

const explorerTurn = -1
const maxThreads = 16

// ---- state shared between goroutines: touched only inside //go:norace functions ----
var (
	active  bool
	turn    int
	slots   [maxThreads]*Thread
	nslots  int
	aborted bool
)

// Step is one scheduling decision of an execution.
type Step struct {
	Tid     int    `json:"t"`
	Op      string `json:"op"`
	Obj     int    `json:"obj"`
	Enabled []int  `json:"en"`
	Choice  int    `json:"c"`
	Preempt bool   `json:"p,omitempty"` // the alternatives at this step cost a preemption
}

type PanicInfo struct {
	Tid   int    `json:"tid"`
	Value string `json:"value"`
	Stack string `json:"stack"`
}

// Result describes one execution.
type Result struct {
	Steps     []Step      `json:"steps"`
	Choices   []int       `json:"choices"`
	Deadlock  bool        `json:"deadlock,omitempty"`
	Blocked   []string    `json:"blocked,omitempty"`
	Panics    []PanicInfo `json:"panics,omitempty"`
	Threads   int         `json:"threads"`
	Overrun   bool        `json:"overrun,omitempty"`
	BadChoice bool        `json:"bad_choice,omitempty"` // a prescribed choice did not exist: the replayed prefix diverged
	Points    int         `json:"points"`
	Contended int         `json:"contended"` // steps at which some unfinished thread was not enabled
}

// HarnessError is raised (as a panic) for problems of the machinery itself.
type HarnessError struct{ Msg string }

func (e HarnessError) Error() string { return "vsched: " + e.Msg }

func harnessf(f string, a ...any) { panic(HarnessError{fmt.Sprintf(f, a...)}) }

// ---------------------------------------------------------------------------------
// thread side

//go:norace
//go:noinline
func current() *Thread {
	if !active {
		return nil
	}
	g := goid()
	for i := 0; i < nslots; i++ {
		if t := slots[i]; t != nil && t.goid == g {
			return t
		}
	}
	return nil
}

// Managed reports whether the calling goroutine is a managed thread of an active execution.
func Managed() bool { return current() != nil }

//go:norace
//go:noinline
func park(t *Thread, op Op) {
	t.pending = op
	if t.revoked {
		// the thread was parked inside a blocking operation (sync.Cond.Wait re-locking its mutex, a select that woke up)
		// when the explorer took the turn away: it does not hold the turn, it only asks for one
		t.ext = 2
	} else {
		turn = explorerTurn
	}
	for turn != t.id {
		runtime.Gosched()
	}
	if t.revoked {
		t.revoked = false
		t.ext = 0
	}
}

//go:norace
//go:noinline
func tryResult(t *Thread) bool { return t.tryOK }

// Point announces the next synchronisation operation of the calling goroutine and returns when the
// scheduler lets it proceed. It returns false when the caller is not managed (pass-through).
func Point(k Kind, obj uintptr, arg int) bool {
	t := current()
	if t == nil {
		return false
	}
	park(t, Op{Kind: k, Obj: obj, Arg: arg})
	return true
}

// TryPoint is Point for try-lock operations; ok is the outcome decided by the scheduler.
func TryPoint(k Kind, obj uintptr) (managed, ok bool) {
	t := current()
	if t == nil {
		return false, false
	}
	park(t, Op{Kind: k, Obj: obj})
	return true, tryResult(t)
}

// ExtBegin announces a real operation that may park the goroutine in the runtime (a channel operation). The operation
// itself is performed for real; if it parks, the explorer notices that the thread holds the turn without running, takes
// the turn away and lets other threads run; ExtEnd then waits for a new turn before the thread continues. A thread that
// nobody ever wakes up is reported like any other blocked thread (deadlock).
func ExtBegin(obj uintptr) *Thread {
	t := current()
	if t == nil {
		return nil
	}
	park(t, Op{Kind: OpExt, Obj: obj})
	setExt(t, 1)
	return t
}

// ExtEnd is called right after the operation announced by ExtBegin returned.
func ExtEnd(t *Thread) {
	if t != nil {
		extEnd(t)
	}
}

//go:norace
//go:noinline
func setExt(t *Thread, v int) { t.ext = v }

//go:norace
//go:noinline
func extEnd(t *Thread) {
	if !t.revoked {
		t.ext = 0
		return
	}
	t.pending = Op{Kind: OpExtResume}
	t.ext = 2
	for turn != t.id {
		runtime.Gosched()
	}
	t.revoked = false
	t.ext = 0
}

//go:norace
//go:noinline
func extState(t *Thread) (ext int, revoked bool) { return t.ext, t.revoked }

// FlockWait is called instead of sleeping when a file lock is held elsewhere.
func FlockWait(path string) bool {
	t := current()
	if t == nil {
		return false
	}
	park(t, Op{Kind: OpFlockWait, Path: path})
	return true
}

// Go starts fn as a managed thread when called from a managed thread; otherwise as a plain goroutine.
func Go(fn func()) {
	t := current()
	if t == nil {
		go fn()
		return
	}
	nt := newThread(fn)
	park(t, Op{Kind: OpSpawn, nt: nt})
	go threadMain(nt)
}

// newThread allocates the descriptor of a thread spawned by a managed thread. The explorer reads it without any
// happens-before edge from the spawner (by design: the scheduler adds none), so the initialising stores must not be
// visible to the race detector as writes of the spawner.
//
//go:norace
//go:noinline
func newThread(fn func()) *Thread {
	return &Thread{body: fn, pending: Op{Kind: OpStart}}
}

var doneCh = make(chan int, maxThreads)

//go:norace
//go:noinline
func register(t *Thread) { t.goid = goid() }

//go:norace
//go:noinline
func markFinished(t *Thread) {
	t.finished = true
	t.pending = Op{Kind: OpExit}
	turn = explorerTurn
}

func threadMain(t *Thread) {
	register(t)
	waitFirstTurn(t)
	func() {
		defer func() {
			if r := recover(); r != nil {
				t.panicVal = r
				t.panicStk = string(debug.Stack())
			}
		}()
		t.body()
	}()
	markFinished(t)
	doneCh <- t.id
}

//go:norace
//go:noinline
func waitFirstTurn(t *Thread) {
	for turn != t.id {
		runtime.Gosched()
	}
}

func goid() int64 {
	var buf [48]byte
	n := runtime.Stack(buf[:], false)
	// "goroutine 123 [running]:"
	var id int64
	for i := len("goroutine "); i < n; i++ {
		c := buf[i]
		if c < '0' || c > '9' {
			break
		}
		id = id*10 + int64(c-'0')
	}
	return id
}

// ---------------------------------------------------------------------------------
// explorer side (runs on the goroutine that calls Run)

//go:norace
//go:noinline
func grant(t *Thread) {
	turn = t.id
	for n := 0; turn != explorerTurn; n++ {
		runtime.Gosched()
		if t.ext == 1 && n > extSpin {
			// the thread is inside a blocking operation and has not run although every other goroutine yielded extSpin
			// times: it is parked in the runtime. Take the turn away; extEnd makes it wait for a new one.
			t.revoked = true
			t.pending = Op{Kind: OpExt} // whatever it announced last has been performed; now it is parked
			turn = explorerTurn
			return
		}
		if n > spinLimit {
			stuck(t)
		}
	}
}

// extSpin: yields after which a thread that is inside a blocking operation and has not moved is considered parked
// (GOMAXPROCS is 1 and asynchronous preemption is off: a runnable goroutine runs within one round of yields).
const extSpin = 300

// settle gives threads whose blocking operation may just have been completed by another thread the chance to return
// from it (and to ask for a turn) before the enabled set is computed.
//
//go:norace
//go:noinline
func settle(ts []*Thread) {
	parked := false
	for _, t := range ts {
		parked = parked || (t.ext == 1 && t.revoked)
	}
	if !parked {
		return
	}
	for n := 0; n < extSpin; n++ {
		runtime.Gosched()
	}
}

// spinLimit bounds the number of yields the explorer spends waiting for a thread to reach its next
// scheduling point; a thread that blocks on something the scheduler does not see is a harness error.
const spinLimit = 400_000_000

func stuck(t *Thread) {
	buf := make([]byte, 1<<16)
	buf = buf[:runtime.Stack(buf, true)]
	harnessf("thread %d did not reach a scheduling point (blocked outside the scheduler's view)\n%s", t.id, buf)
}

//go:norace
//go:noinline
func readPending(t *Thread) (Op, bool) { return t.pending, t.finished }

//go:norace
//go:noinline
func setTry(t *Thread, ok bool) { t.tryOK = ok }

//go:norace
//go:noinline
func setID(t *Thread, id int) { t.id = id }

//go:norace
//go:noinline
func beginExec() {
	for i := range slots {
		slots[i] = nil
	}
	nslots = 0
	turn = explorerTurn
	active = true
}

//go:norace
//go:noinline
func addSlot(t *Thread) int {
	if nslots >= maxThreads {
		return -1
	}
	slots[nslots] = t
	nslots++
	return nslots - 1
}

//go:norace
//go:noinline
func endExec() { active = false }

type rwState struct {
	writer  int // thread holding the write lock, -1
	pending int // thread that announced a write lock, -1
	readers map[int]int
}

type shadow struct {
	mu    map[uintptr]int // mutex -> owner
	rw    map[uintptr]*rwState
	wg    map[uintptr]int
	label map[uintptr]int
	tried map[uintptr]bool // mutexes on which TryLock has been used in this execution
}

func (s *shadow) lab(o uintptr) int {
	if o == 0 {
		return -1
	}
	if l, ok := s.label[o]; ok {
		return l
	}
	l := len(s.label)
	s.label[o] = l
	return l
}

func (s *shadow) rws(o uintptr) *rwState {
	r := s.rw[o]
	if r == nil {
		r = &rwState{writer: -1, pending: -1, readers: map[int]int{}}
		s.rw[o] = r
	}
	return r
}

// FlockHeld is consulted for OpFlockWait; installed by the harness (process-wide file lock table).
var FlockHeld func(path string) bool

func (s *shadow) enabled(t *Thread, op Op) bool {
	switch op.Kind {
	case OpLock:
		if r, ok := s.rw[op.Obj]; ok { // phase 2 of RWMutex.Lock
			n := 0
			for _, c := range r.readers {
				n += c
			}
			return r.pending == t.id && n == 0 && r.writer == -1
		}
		_, held := s.mu[op.Obj]
		return !held
	case OpWLockReq:
		r := s.rws(op.Obj)
		return r.writer == -1 && r.pending == -1
	case OpRLock:
		r := s.rws(op.Obj)
		return r.writer == -1 && r.pending == -1
	case OpWgWait:
		return s.wg[op.Obj] == 0
	case OpFlockWait:
		if FlockHeld == nil {
			harnessf("FlockHeld not installed")
		}
		return !FlockHeld(op.Path)
	}
	if ext, revoked := extState(t); ext == 1 && revoked {
		return false // parked inside a blocking operation
	}
	return true
}

func (s *shadow) apply(t *Thread, op Op) {
	switch op.Kind {
	case OpLock:
		if r, ok := s.rw[op.Obj]; ok {
			r.writer, r.pending = t.id, -1
			return
		}
		s.mu[op.Obj] = t.id
	case OpUnlock:
		if _, held := s.mu[op.Obj]; !held {
			// unlock of an unlocked mutex: the real primitive will throw; let it
			return
		}
		delete(s.mu, op.Obj)
	case OpTryLock:
		s.tried[op.Obj] = true
		_, held := s.mu[op.Obj]
		setTry(t, !held)
		if !held {
			s.mu[op.Obj] = t.id
		}
	case OpWLockReq:
		s.rws(op.Obj).pending = t.id
	case OpWUnlock:
		s.rws(op.Obj).writer = -1
	case OpRLock:
		s.rws(op.Obj).readers[t.id]++
	case OpRUnlock:
		r := s.rws(op.Obj)
		if r.readers[t.id] > 0 {
			r.readers[t.id]--
		} else {
			// RUnlock by a different goroutine than the one that RLocked: take any reader
			for k, c := range r.readers {
				if c > 0 {
					r.readers[k]--
					break
				}
			}
		}
	case OpTryRLock:
		r := s.rws(op.Obj)
		ok := r.writer == -1 && r.pending == -1
		setTry(t, ok)
		if ok {
			r.readers[t.id]++
		}
	case OpWgAdd:
		s.wg[op.Obj] += op.Arg
	}
}

func (s *shadow) choicePoint(op Op) bool {
	switch op.Kind {
	case OpUnlock:
		return s.tried[op.Obj] // releasing a lock that others probe with TryLock: they may run while it is still held
	case OpWUnlock, OpRUnlock, OpWgAdd, OpSpawn:
		return false
	}
	return true
}

// MaxSteps bounds one execution (horizon); exceeding it is reported as Overrun.
var MaxSteps = 20000

// Run executes bodies once under the schedule given by choices: choices[i] is the index into
// the canonically ordered enabled set at the i-th choice point (running thread first if still
// enabled, then ascending thread ids); beyond len(choices) index 0 is taken. An out-of-range
// choice is a harness error.
func Run(choices []int, bodies []func()) *Result {
	if runtime.GOMAXPROCS(0) != 1 {
		harnessf("GOMAXPROCS must be 1")
	}
	res := &Result{}
	sh := &shadow{mu: map[uintptr]int{}, rw: map[uintptr]*rwState{}, wg: map[uintptr]int{}, label: map[uintptr]int{}, tried: map[uintptr]bool{}}
	beginExec()
	var threads []*Thread
	adopt := func(t *Thread) {
		setID(t, len(threads))
		if addSlot(t) < 0 {
			harnessf("too many threads")
		}
		threads = append(threads, t)
	}
	for _, b := range bodies {
		t := &Thread{body: b, pending: Op{Kind: OpStart}}
		adopt(t)
		go threadMain(t)
	}
	cur := -1
	ci := 0
	for {
		if len(res.Steps) > MaxSteps {
			res.Overrun = true
			break
		}
		// non-choice operation of the running thread: apply and continue it
		if cur >= 0 {
			op, fin := readPending(threads[cur])
			if !fin && !sh.choicePoint(op) {
				t := threads[cur]
				if op.Kind == OpSpawn {
					adopt(op.nt)
				} else {
					sh.apply(t, op)
				}
				grant(t)
				continue
			}
		}
		settle(threads)
		var en []int
		unfinished := 0
		curEnabled := false
		for _, t := range threads {
			op, fin := readPending(t)
			if fin {
				continue
			}
			unfinished++
			if sh.enabled(t, op) {
				if t.id == cur {
					curEnabled = true
				} else {
					en = append(en, t.id)
				}
			}
		}
		if curEnabled {
			en = append([]int{cur}, en...)
		}
		if unfinished == 0 {
			break
		}
		if len(en) == 0 {
			res.Deadlock = true
			for _, t := range threads {
				op, fin := readPending(t)
				if !fin {
					if ext, revoked := extState(t); ext == 1 && revoked {
						res.Blocked = append(res.Blocked, fmt.Sprintf("t%d is blocked in a channel operation (obj=%d) that nobody completes", t.id, sh.lab(op.Obj)))
						continue
					}
					res.Blocked = append(res.Blocked, fmt.Sprintf("t%d waits at %s obj=%d %s", t.id, op.Kind, sh.lab(op.Obj), op.Path))
				}
			}
			break
		}
		if len(en) < unfinished {
			res.Contended++
		}
		c := 0
		if ci < len(choices) {
			c = choices[ci]
			if c < 0 || c >= len(en) {
				// only possible when the program is not deterministic under the schedule (the explorer checks for that)
				res.BadChoice = true
				c = 0
			}
		}
		ci++
		t := threads[en[c]]
		op, _ := readPending(t)
		res.Steps = append(res.Steps, Step{Tid: t.id, Op: op.Kind.String(), Obj: sh.lab(op.Obj), Enabled: en, Choice: c, Preempt: curEnabled})
		res.Choices = append(res.Choices, c)
		sh.apply(t, op)
		cur = t.id
		grant(t)
	}
	res.Points = len(res.Steps)
	res.Threads = len(threads)
	if res.Deadlock || res.Overrun {
		// threads are stuck for good; the caller must report and leave the process
		endExec()
		return res
	}
	for range threads {
		<-doneCh
	}
	endExec()
	for _, t := range threads {
		if t.panicVal != nil {
			res.Panics = append(res.Panics, PanicInfo{Tid: t.id, Value: fmt.Sprint(t.panicVal), Stack: trimStack(t.panicStk)})
		}
	}
	return res
}

func trimStack(s string) string {
	lines := strings.Split(s, "\n")
	if len(lines) > 40 {
		lines = lines[:40]
	}
	return strings.Join(lines, "\n")
}

// ---- logical clock for call/return histories (invisible to the race detector) ----

var clock int

//go:norace
//go:noinline
func Tick() int { clock++; return clock }
