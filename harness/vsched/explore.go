package vsched

import (
	"fmt"
	"os"
	"reflect"
	"runtime"
	"time"
)

// Scenario produces, for every execution, fresh thread bodies and a checker that is run after
// the execution completed (all threads joined).
type Scenario func() (bodies []func(), check func(r *Result) string)

// Stats summarises an exploration.
type Stats struct {
	Schedules       int            `json:"schedules"`
	Points          int            `json:"points"`          // total choice points executed
	MaxPoints       int            `json:"max_points"`      // longest execution
	Bound           int            `json:"bound"`           // preemption bound explored (-1 = unbounded)
	Complete        bool           `json:"complete"`        // the whole space within the bound was enumerated
	WithPreemption  int            `json:"with_preemption"` // schedules containing >=1 preemption
	Contended       int            `json:"contended"`       // schedules in which some thread was blocked at some point
	Outcomes        map[string]int `json:"outcomes"`        // distinct outcome strings reported by the scenario
	Violation       string         `json:"violation,omitempty"`
	ViolationRun    *Result        `json:"violation_run,omitempty"`
	RaceLog         string         `json:"race_log,omitempty"`
	Samples         [][]int        `json:"samples,omitempty"`
	Diverged        int            `json:"diverged"`         // executions whose replayed prefix did not match (nondeterminism outside the scheduler)
	SkippedSubtrees int            `json:"skipped_subtrees"` // prefixes that could not be reproduced in 12 attempts
}

// Explorer enumerates all schedules of a scenario with at most Bound preemptions.
type Explorer struct {
	Scenario Scenario
	Bound    int // -1 = unbounded
	Deadline time.Time
	// Shard/NShards split the level-SplitDepth subtrees between processes.
	Shard, NShards int
	RaceLogPath    string        // file written by the race detector (GORACE log_path + ".<pid>"), "" if none
	Outcome        func() string // optional: outcome string of the execution just checked
	stats          Stats
	subtree        int
	raceSize       int64
	stop           bool
	quiet          bool
	diverged       bool
	execs          int
}

func (e *Explorer) raceGrew() (bool, string) {
	if e.RaceLogPath == "" {
		return false, ""
	}
	fi, err := os.Stat(e.RaceLogPath)
	if err != nil {
		return false, ""
	}
	if fi.Size() > e.raceSize {
		b, _ := os.ReadFile(e.RaceLogPath)
		txt := string(b[e.raceSize:])
		e.raceSize = fi.Size()
		return true, txt
	}
	return false, ""
}

func (e *Explorer) runOne(prefix []int, expect []Step) *Result {
	// scenarios may switch the collector off while an execution runs (a finalizer must not release a leaked lock at a
	// random moment); collect explicitly between executions, or a long exploration grows without bound
	if e.execs++; e.execs%256 == 0 {
		runtime.GC()
	}
	bodies, check := e.Scenario()
	r := Run(prefix, bodies)
	if !e.quiet {
		e.stats.Schedules++
		e.stats.Points += r.Points
	}
	if r.Points > e.stats.MaxPoints {
		e.stats.MaxPoints = r.Points
	}
	// divergence while replaying a prefix: the program under test has a source of nondeterminism the scheduler does not
	// own (Go map iteration order is the one that exists in updog). The execution that happened is still a real execution
	// and is checked below; the caller retries to get the expected prefix.
	e.diverged = r.BadChoice
	if r.BadChoice {
		e.stats.Diverged++
	}
	for i := range expect {
		if e.diverged {
			break
		}
		if i >= len(r.Steps) || i >= len(prefix) {
			break
		}
		a, b := expect[i], r.Steps[i]
		if a.Tid != b.Tid || a.Op != b.Op || a.Obj != b.Obj || !reflect.DeepEqual(a.Enabled, b.Enabled) {
			e.diverged = true
			e.stats.Diverged++
			break
		}
	}
	np := 0
	for _, s := range r.Steps {
		if s.Preempt && s.Choice != 0 {
			np++
		}
	}
	if np > 0 && !e.quiet {
		e.stats.WithPreemption++
	}
	if r.Contended > 0 && !e.quiet {
		e.stats.Contended++
	}
	viol := ""
	switch {
	case r.Overrun:
		viol = fmt.Sprintf("execution exceeded the horizon of %d steps (livelock)", MaxSteps)
	case r.Deadlock:
		viol = fmt.Sprintf("deadlock: %v", r.Blocked)
	case len(r.Panics) > 0:
		viol = fmt.Sprintf("panic in thread %d: %s", r.Panics[0].Tid, r.Panics[0].Value)
	}
	if grew, txt := e.raceGrew(); grew && viol == "" {
		viol = "data race reported by the Go race detector in this schedule"
		e.stats.RaceLog = txt
	}
	if viol == "" && check != nil {
		viol = check(r)
	}
	if viol == "" && e.Outcome != nil && !e.quiet {
		e.stats.Outcomes[e.Outcome()]++
	}
	if viol != "" {
		e.stats.Violation = viol
		e.stats.ViolationRun = r
		e.stop = true
	}
	if len(e.stats.Samples) < 3 || (np > 0 && len(e.stats.Samples) < 5) {
		e.stats.Samples = append(e.stats.Samples, append([]int{}, r.Choices...))
	}
	return r
}

// SplitDepth is the number of deviations after which subtrees are dealt to shards.
const SplitDepth = 2

func (e *Explorer) explore(prefix []int, expect []Step, depth int) {
	if e.stop {
		return
	}
	mine := true
	if e.NShards > 1 && depth == SplitDepth {
		mine = e.subtree%e.NShards == e.Shard
		e.subtree++
		if !mine {
			return
		}
	}
	// the spine above the split is executed by every shard but counted only by shard 0
	e.quiet = e.NShards > 1 && depth < SplitDepth && e.Shard != 0
	r := e.runOne(prefix, expect)
	for try := 0; e.diverged && !e.stop && try < 12; try++ {
		r = e.runOne(prefix, expect)
	}
	e.quiet = false
	if e.diverged && !e.stop {
		e.stats.SkippedSubtrees++
		e.stats.Complete = false
		return
	}
	if e.stop {
		return
	}
	if !e.Deadline.IsZero() && time.Now().After(e.Deadline) {
		e.stats.Complete = false
		e.stop = true
		return
	}
	cost := 0
	for i := 0; i < len(r.Steps); i++ {
		s := r.Steps[i]
		if i >= len(prefix) {
			c := cost
			if s.Preempt {
				c++
			}
			if e.Bound < 0 || c <= e.Bound {
				for alt := 1; alt < len(s.Enabled); alt++ {
					np := append(append([]int{}, r.Choices[:i]...), alt)
					e.explore(np, r.Steps[:i], depth+1)
					if e.stop {
						return
					}
				}
			}
		}
		// cost of the choice actually taken at step i (prefix part)
		if s.Preempt && s.Choice != 0 {
			cost++
		}
	}
}

// Explore runs the exploration and returns its statistics. When a violation is found the exploration stops;
// if the violating execution dead-locked, its goroutines are abandoned and the process should exit soon.
func (e *Explorer) Explore() Stats {
	e.stats = Stats{Bound: e.Bound, Complete: true, Outcomes: map[string]int{}}
	if e.RaceLogPath != "" {
		if fi, err := os.Stat(e.RaceLogPath); err == nil {
			e.raceSize = fi.Size()
		}
	}
	// determinism self-test: the default schedule twice
	bodies, _ := e.Scenario()
	a := Run(nil, bodies)
	if a.Deadlock || a.Overrun {
		// the threads of this execution are stuck for good and may hold real locks of objects that the next execution
		// would share (a driver, a cache): nothing more can be run in this process. Report it now.
		e.stats.Schedules++
		e.stats.Points += a.Points
		if a.Deadlock {
			e.stats.Violation = fmt.Sprintf("deadlock: %v", a.Blocked)
		} else {
			e.stats.Violation = fmt.Sprintf("execution exceeded the horizon of %d steps (livelock)", MaxSteps)
		}
		e.stats.ViolationRun = a
		return e.stats
	}
	if !a.Deadlock && !a.Overrun {
		bodies, _ = e.Scenario()
		b := Run(nil, bodies)
		if !reflect.DeepEqual(a.Steps, b.Steps) {
			e.stats.Diverged++ // the program under test is not deterministic under a fixed schedule (see runOne)
		}
	}
	// a race in the self-test executions is picked up by the first explored execution (log grew)
	if e.RaceLogPath != "" {
		// do not swallow: leave raceSize where it was
	}
	e.explore(nil, nil, 0)
	return e.stats
}

// ReplayOne executes exactly one schedule (choices, then defaults) and checks it.
func (e *Explorer) ReplayOne(choices []int) Stats {
	e.stats = Stats{Bound: e.Bound, Complete: true, Outcomes: map[string]int{}}
	if e.RaceLogPath != "" {
		if fi, err := os.Stat(e.RaceLogPath); err == nil {
			e.raceSize = fi.Size()
		}
	}
	e.runOne(choices, nil)
	return e.stats
}
